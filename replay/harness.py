"""Run-time contract harness (runs under /venv/bin/python with PYTHONPATH=/repo:/verif).

It evaluates the *same contract text* that pyvc proves, concretely, on the real
functions: (a) cross-check of the encoding on seeded random inputs, (b) search for a
concrete failing input for refuted obligations (replay), (c) the bounded stand-ins.
Nothing here is counted as proof.
"""
import ast
import glob
import importlib.util
import json
import math
import os
import sys
import time
import traceback

import numpy as np

VERIF = os.path.dirname(os.path.dirname(os.path.abspath(__file__)))
sys.path.insert(0, VERIF)

RTOL = 1e-7


def _mag(x):
    try:
        return float(np.max(np.abs(x))) if np.size(x) else 0.0
    except Exception:
        return 0.0


class Tol:
    scale = 0.0  # problem-size dependent absolute slack, set per evaluation


def _EQ(a, b):
    if a is None or b is None:
        return a is None and b is None
    if isinstance(a, (str, bool)) or isinstance(b, (str, bool)):
        return a == b
    try:
        a_, b_ = np.asarray(a), np.asarray(b)
        if a_.dtype.kind in "iub" and b_.dtype.kind in "iub":
            return bool(np.all(a_ == b_))
        m = max(_mag(a_), _mag(b_), Tol.scale)
        return bool(np.all(np.abs(a_ - b_) <= RTOL * m + 1e-300))
    except Exception:
        return a == b


def _LE(a, b):
    m = max(_mag(a), _mag(b), Tol.scale)
    return bool(np.all(np.asarray(a) <= np.asarray(b) + RTOL * m))


def _LT(a, b):
    return bool(np.all(np.asarray(a) < np.asarray(b) + RTOL * max(_mag(a), _mag(b), Tol.scale))) if isinstance(a, float) or isinstance(b, float) else bool(np.all(np.asarray(a) < np.asarray(b)))


class _Tolerant(ast.NodeTransformer):
    def visit_Call(self, node):
        self.generic_visit(node)
        # lazy readings of the spec connectives (the guarded side may index out of range)
        if isinstance(node.func, ast.Name) and node.func.id == "implies" and len(node.args) == 2:
            return ast.BoolOp(op=ast.Or(), values=[ast.UnaryOp(op=ast.Not(), operand=node.args[0]), node.args[1]])
        if isinstance(node.func, ast.Name) and node.func.id == "ite" and len(node.args) == 3:
            return ast.IfExp(test=node.args[0], body=node.args[1], orelse=node.args[2])
        return node

    def visit_Compare(self, node):
        self.generic_visit(node)
        parts = []
        left = node.left
        for op, right in zip(node.ops, node.comparators):
            fn = {ast.Eq: "_EQ", ast.LtE: "_LE", ast.GtE: "_GE", ast.NotEq: "_NE"}.get(type(op))
            if fn:
                parts.append(ast.Call(func=ast.Name(id=fn, ctx=ast.Load()), args=[left, right], keywords=[]))
            else:
                parts.append(ast.Compare(left=left, ops=[op], comparators=[right]))
            left = right
        if len(parts) == 1:
            return parts[0]
        return ast.BoolOp(op=ast.And(), values=parts)


_cache = {}


def compile_clause(text):
    if text not in _cache:
        tree = ast.parse(text.strip(), mode="eval")
        tree = _Tolerant().visit(tree)
        ast.fix_missing_locations(tree)
        _cache[text] = compile(tree, "<clause>", "eval")
    return _cache[text]


def spec_namespace():
    ns = {}

    def Sum(lo, hi, f):
        tot = 0.0
        for n in range(int(lo), int(hi)):
            tot = tot + f(n)
        return tot

    def forall(lo, hi, f):
        return all(bool(f(k)) for k in range(int(lo), int(hi)))

    def exists(lo, hi, f):
        return any(bool(f(k)) for k in range(int(lo), int(hi)))

    ns.update(
        Sum=Sum,
        forall=forall,
        exists=exists,
        implies=lambda a, b: (not a) or bool(b),
        iff=lambda a, b: bool(a) == bool(b),
        ite=lambda c, a, b: a if c else b,
        re=lambda z: np.real(z),
        im=lambda z: np.imag(z),
        conj=lambda z: np.conj(z),
        abs2=lambda z: np.real(z) ** 2 + np.imag(z) ** 2,
        sqrt=lambda x: np.sqrt(x),
        cosn=lambda th, n: math.cos(th * n),
        sinn=lambda th, n: math.sin(th * n),
        arcsin=lambda x: np.arcsin(x),
        angle=lambda z: np.angle(z),
        log10=lambda x: np.log10(x),
        ln=lambda x: np.log(x),
        exp=lambda x: np.exp(x),
        power=lambda a, b: np.power(a, b),
        floor=lambda x: math.floor(x),
        ceil=lambda x: math.ceil(x),
        rhu=lambda x: math.floor(x + 0.5),
        rhe=lambda x: int(np.round(x)),
        trunc=lambda x: int(x),
        real=lambda x: float(x),
        pi=math.pi,
        _EQ=_EQ,
        _LE=_LE,
        _GE=lambda a, b: _LE(b, a),
        _NE=lambda a, b: not _EQ(a, b),
        np=np,
    )
    with open(os.path.join(VERIF, "specs", "spec_lib.py")) as fh:
        exec(compile(fh.read(), "spec_lib.py", "exec"), ns)
    return ns


def load_units():
    units = {}
    mods = []
    for path in sorted(glob.glob(os.path.join(VERIF, "contracts", "*.py"))):
        name = "contracts_" + os.path.basename(path)[:-3]
        spec = importlib.util.spec_from_file_location(name, path)
        m = importlib.util.module_from_spec(spec)
        sys.modules[name] = m
        spec.loader.exec_module(m)
        mods.append(m)
        for u in getattr(m, "UNITS", []):
            units[u.id] = u
    return units, mods


def eval_unit_once(u, ns0, args, labels=None):
    """call the real function on args, evaluate requires/ensures; returns list of failed labels"""
    rt = u.runtime
    ns = dict(ns0)
    ns.update(args)
    for g, kind in u.ghosts.items():
        if isinstance(kind, tuple):
            ns[g] = eval(kind[1], ns)
    gd = u.opts.get("ghost_defs") or {}
    for k, t in gd.items():
        ns[k] = eval(t["opaque"] if isinstance(t, dict) else t, ns)
    if rt.get("env"):
        try:
            ns.update(rt["env"](args, None, ns))
        except Exception:
            pass
    pre_ok = True
    for label, text in u.requires:
        if text in rt.get("skip_requires", ()):  # quantified / ghost-only clauses
            continue
        try:
            if not eval(compile_clause(text), ns):
                pre_ok = False
        except Exception:
            pre_ok = False
    if not pre_ok:
        return None, None
    olds = {}
    for k, v in args.items():
        olds["old_" + k] = v.copy() if isinstance(v, np.ndarray) else v
    ns.update(olds)
    try:
        result = rt["call"](dict(args))
        exc = None
    except Exception as e:  # the contract decides whether raising is allowed
        result = None
        exc = e
    failed = []
    if exc is not None:
        allowed = u.raises.get(type(exc).__name__, u.raises.get("*"))
        ok = allowed is True
        if isinstance(allowed, str):
            try:
                ok = bool(eval(compile_clause(allowed), ns))
            except Exception:
                ok = False
        if not ok:
            failed.append(("no_raise:" + type(exc).__name__, repr(exc)[:300]))
        return failed, {"raised": repr(exc)[:300]}
    ns["result"] = result
    if rt.get("env"):
        ns.update(rt["env"](args, result, ns))
    Tol.scale = float(rt["scale"](args, result)) if rt.get("scale") else 0.0
    envs = list(rt["foreach"](args, result, ns)) if rt.get("foreach") else [{}]
    for label, text in u.ensures:
        if labels is not None and label not in labels:
            continue
        if label in rt.get("skip_ensures", ()) or label.startswith("lemma."):
            continue  # proof hints (cut lemmas) are exact-arithmetic statements: not run-time clauses
        for extra in envs:
            ns.update(extra)
            try:
                ok = bool(eval(compile_clause(text), ns))
                detail = None if ok else "clause evaluates to False" + (f" at {extra}" if extra else "")
            except Exception as e:
                ok = False
                detail = "clause raised " + repr(e)[:200] + (f" at {extra}" if extra else "")
            if not ok:
                failed.append((label, detail))
                break
    return failed, {"result": summarize(result)}


def summarize(x, depth=0):
    if isinstance(x, np.ndarray):
        if x.size <= 12:
            return x.tolist() if x.dtype.kind != "c" else [str(v) for v in x.tolist()]
        return {"ndarray": list(x.shape), "head": [str(v) for v in x.ravel()[:6].tolist()]}
    if isinstance(x, (list, tuple)) and depth < 3:
        return [summarize(v, depth + 1) for v in list(x)[:12]]
    if isinstance(x, dict) and depth < 3:
        return {str(k): summarize(v, depth + 1) for k, v in list(x.items())[:20]}
    if isinstance(x, (int, float, str, bool)) or x is None:
        return x
    if isinstance(x, complex):
        return str(x)
    if isinstance(x, (np.integer,)):
        return int(x)
    if isinstance(x, (np.floating,)):
        return float(x)
    return repr(x)[:120]


def main():
    inp, outp = sys.argv[1], sys.argv[2]
    with open(inp) as fh:
        req = json.load(fh)
    t0 = time.time()
    out = {"units": {}, "replays": {}, "bounded": [], "known_status": {}}
    try:
        units, mods = load_units()
        ns0 = spec_namespace()
        tier = req.get("tier", "quick")
        seed = int(req.get("seed", 0))
        known = req.get("known", [])
        # ---- known findings: does the recorded witness still fail? ---------------------
        for f in known:
            fid = f.get("id", f.get("obligation"))
            chk = None
            for m in mods:
                kc = getattr(m, "KNOWN_CHECKS", {})
                if fid in kc:
                    chk = kc[fid]
            if chk is None:
                continue
            try:
                still, detail = chk()
                out["known_status"][fid] = {"still_fails": bool(still), "detail": detail}
            except Exception as e:
                out["known_status"][fid] = {"still_fails": False, "detail": "check raised " + repr(e)[:200]}
        # ---- cross-check ------------------------------------------------------------------
        for uid in req.get("units", []):
            u = units.get(uid)
            if u is None or not u.runtime:
                continue
            rt = u.runtime
            n = rt.get("n_quick", 20) if tier == "quick" else rt.get("n_thorough", 200)
            rng = np.random.default_rng(seed * 7919 + (hash(uid) % 10007))
            rng = np.random.default_rng([seed, sum(map(ord, uid))])
            ur = {"samples": 0, "clauses_evaluated": 0, "failed": 0, "failures": []}
            for i in range(n):
                try:
                    args = rt["sample"](rng, i)
                    failed, obs = eval_unit_once(u, ns0, args)
                except Exception as e:
                    ur.setdefault("errors", []).append(repr(e)[:300] + traceback.format_exc()[-400:])
                    continue
                if failed is None:
                    continue
                ur["samples"] += 1
                ur["clauses_evaluated"] += len(u.ensures)
                if failed:
                    ur["failed"] += 1
                    if len(ur["failures"]) < 3:
                        kid = None
                        for f in known:
                            if f.get("unit") == uid and f.get("label") in [l for l, _ in failed] and out["known_status"].get(f.get("id"), {}).get("still_fails"):
                                kid = f.get("id")
                        ur["failures"].append({"label": failed[0][0], "detail": failed[0][1], "all": failed, "input": summarize(args), "observed": obs, "known_id": kid})
            out["units"][uid] = ur
        if req.get("only_units"):
            pass
        # ---- replay of refuted obligations --------------------------------------------------
        for r in req.get("refuted", []):
            uid = r["unit"]
            u = units.get(uid)
            rec = {"found": False}
            if u is not None and u.runtime and u.runtime.get("replay_fn"):
                try:
                    rec = u.runtime["replay_fn"](r.get("model") or {}, r["label"], np.random.default_rng([seed, 23]))
                except Exception as e:
                    rec = {"found": False, "error": repr(e)[:300]}
            elif u is not None and u.runtime:
                rt = u.runtime
                rng = np.random.default_rng([seed, 17, sum(map(ord, uid))])
                label = r["label"].split("#")[0]
                base_label = label.split(".")[0] if r["kind"] == "post" else None
                labels = [base_label] if base_label and base_label in dict(u.ensures) else None
                tries = 0
                cands = []
                if rt.get("from_model") and r.get("model"):
                    try:
                        cands.extend(rt["from_model"](r["model"], rng) or [])
                    except Exception as e:
                        rec["from_model_error"] = repr(e)[:200]
                nsearch = rt.get("n_search", 300)
                for i in range(nsearch + len(cands)):
                    try:
                        args = cands[i] if i < len(cands) else rt["sample"](rng, i)
                        failed, obs = eval_unit_once(u, ns0, args, labels)
                    except Exception as e:
                        rec["error"] = repr(e)[:300]
                        continue
                    if failed is None:
                        continue
                    tries += 1
                    if failed:
                        rec = {"found": True, "input": summarize(args), "failed_clause": failed[0][0], "detail": failed[0][1], "observed": obs, "tries": tries, "from_model": i < len(cands)}
                        break
                rec["tries"] = tries
            out["replays"][r["obligation"]] = rec
        # ---- bounded stand-ins ------------------------------------------------------------------
        if not req.get("only_units"):
            for bname in req.get("bounded", []):
                fn = None
                for m in mods:
                    b = getattr(m, "BOUNDED", {})
                    if bname in b:
                        fn = b[bname]
                if fn is None:
                    out["bounded"].append({"name": bname, "error": "not found", "failures": []})
                    continue
                try:
                    res = fn(tier, seed)
                    res["name"] = bname
                    res.setdefault("failures", [])
                    res["label"] = "bounded"
                    for fl in res["failures"]:
                        fid = fl.get("known_id")
                        if fid and not out["known_status"].get(fid, {}).get("still_fails", True):
                            fl["known_id"] = None
                    out["bounded"].append(res)
                except Exception as e:
                    out["bounded"].append({"name": bname, "error": repr(e)[:300] + traceback.format_exc()[-600:], "failures": []})
                    out.setdefault("errors", []).append(f"bounded {bname}: {e!r}")
        out["wall_s"] = time.time() - t0
    except Exception as e:
        out["error"] = repr(e) + traceback.format_exc()[-1500:]
    with open(outp, "w") as fh:
        json.dump(out, fh, default=str)


if __name__ == "__main__":
    main()
