"""Inductive lemmas about the spec functions, written as ghost Python: the loop
``for n in range(M): pass`` with the lemma statement as its invariant makes pyvc generate the
base case (inv_init) and the induction step (inv_step); the statement at n == M is the
function's postcondition.  Nothing here is repository code."""


def lemma_sum_shift(x, c, M):
    # sum_{i<M} (x[i] - c) == sum_{i<M} x[i] - M*c
    for n in range(M):
        pass
    return None


def lemma_sum_scale(x, t, c, M):
    # sum_{i<M} t[i]*(c*x[i]) == c * sum_{i<M} t[i]*x[i]
    for n in range(M):
        pass
    return None
