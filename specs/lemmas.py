"""Inductive lemmas about the spec functions, written as ghost Python: the loop
``for n in range(M): pass`` with the lemma statement as its invariant makes pyvc generate the
base case (inv_init) and the induction step (inv_step); the statement at n == M is the
function's postcondition.  Nothing here is repository code."""
from speckit.dsp import polynomial_detrend
from speckit.noise import _numba_lfilter_cascade


def lemma_sum_shift(x, c, M):
    # sum_{i<M} (x[i] - c) == sum_{i<M} x[i] - M*c
    for n in range(M):
        pass
    return None


def lemma_sum_scale(x, t, c, M):
    # sum_{i<M} t[i]*(c*x[i]) == c * sum_{i<M} t[i]*x[i]
    for n in range(M):
        pass
    return None


# ---- C07 / C06: a channel that is g times the other (relational lemmas over the kernel spec) -------------------
# x2[i] == g * x1[i] for all i.  Per segment k: the windowed (detrended) DFT of channel 2 is g times that of
# channel 1; summed over segments: MYY = g^2 MXX, mu_r = g MXX, mu_i = 0.


def lemma_scaled_segment_mean(x1, x2, s, L, g):
    # sum_{n<L} x2[s+n] == g * sum_{n<L} x1[s+n]
    for n in range(L):
        pass
    return None


def lemma_scaled_alpha(x1, x2, Q, s, L, P1, c, g):
    # sum_{m<L} Q[m,c]*x2[s+m] == g * sum_{m<L} Q[m,c]*x1[s+m]
    for m in range(L):
        pass
    return None


def lemma_scaled_trend(x1, x2, Q, s, L, P1, n, g):
    # sum_{c<P1} Q[n,c]*Alpha(x2,..,c) == g * sum_{c<P1} Q[n,c]*Alpha(x1,..,c)
    for c in range(P1):
        lemma_scaled_alpha(x1, x2, Q, s, L, P1, c, g)
    return None


def lemma_scaled_dft_win_only(x1, x2, w, starts, k, L, omega, g):
    for n in range(L):
        pass
    return None


def lemma_scaled_dft_detrend0(x1, x2, w, starts, k, L, omega, g):
    lemma_scaled_segment_mean(x1, x2, starts[k], L, g)
    for n in range(L):
        pass
    return None


def lemma_scaled_dft_poly(x1, x2, w, starts, k, L, omega, Q, P1, g):
    for n in range(L):
        lemma_scaled_trend(x1, x2, Q, starts[k], L, P1, n, g)
    return None


def lemma_gain_win_only(x1, x2, w, starts, K, L, omega, g):
    for k in range(K):
        lemma_scaled_dft_win_only(x1, x2, w, starts, k, L, omega, g)
    return None


def lemma_gain_detrend0(x1, x2, w, starts, K, L, omega, g):
    for k in range(K):
        lemma_scaled_dft_detrend0(x1, x2, w, starts, k, L, omega, g)
    return None


def lemma_gain_poly(x1, x2, w, starts, K, L, omega, Q, P1, g):
    for k in range(K):
        lemma_scaled_dft_poly(x1, x2, w, starts, k, L, omega, Q, P1, g)
    return None


# ---- C06: scaling one channel of a pair (third channel y untouched) ------------------------------------------------


def lemma_cross_scaling_win_only(x1, x2, y, w, starts, K, L, omega, g):
    for k in range(K):
        lemma_scaled_dft_win_only(x1, x2, w, starts, k, L, omega, g)
    return None


def lemma_cross_scaling_detrend0(x1, x2, y, w, starts, K, L, omega, g):
    for k in range(K):
        lemma_scaled_dft_detrend0(x1, x2, w, starts, k, L, omega, g)
    return None


def lemma_cross_scaling_poly(x1, x2, y, w, starts, K, L, omega, Q, P1, g):
    for k in range(K):
        lemma_scaled_dft_poly(x1, x2, w, starts, k, L, omega, Q, P1, g)
    return None


# ---- C08: adding a trend the detrending removes (channel 2 = channel 1 + trend) ---------------------------------------


def lemma_shifted_segment_mean(x1, x2, s, L, c):
    # x2 == x1 + c  =>  sum_{n<L} x2[s+n] == sum_{n<L} x1[s+n] + L*c
    for n in range(L):
        pass
    return None


def lemma_invariant_dft_detrend0(x1, x2, w, starts, k, L, omega, c):
    lemma_shifted_segment_mean(x1, x2, starts[k], L, c)
    for n in range(L):
        pass
    return None


def lemma_constant_invariance_detrend0(x1, x2, y, w, starts, K, L, omega, c):
    for k in range(K):
        lemma_invariant_dft_detrend0(x1, x2, w, starts, k, L, omega, c)
    return None


def lemma_shifted_alpha2(x1, x2, Q, s, L, c, b0, b1):
    # columns 0..1: sum_m Q[m,c]*x2[s+m] == sum_m Q[m,c]*x1[s+m] + b0*<Q_c,Q_0> + b1*<Q_c,Q_1>
    for m in range(L):
        pass
    return None


def lemma_shifted_alpha3(x1, x2, Q, s, L, c, b0, b1, b2):
    for m in range(L):
        pass
    return None


def lemma_invariant_dft_poly2(x1, x2, w, starts, k, L, omega, Q, b0, b1):
    lemma_shifted_alpha2(x1, x2, Q, starts[k], L, 0, b0, b1)
    lemma_shifted_alpha2(x1, x2, Q, starts[k], L, 1, b0, b1)
    for n in range(L):
        pass
    return None


def lemma_invariant_dft_poly3(x1, x2, w, starts, k, L, omega, Q, b0, b1, b2):
    lemma_shifted_alpha3(x1, x2, Q, starts[k], L, 0, b0, b1, b2)
    lemma_shifted_alpha3(x1, x2, Q, starts[k], L, 1, b0, b1, b2)
    lemma_shifted_alpha3(x1, x2, Q, starts[k], L, 2, b0, b1, b2)
    for n in range(L):
        pass
    return None


def lemma_trend_invariance_poly2(x1, x2, y, w, starts, K, L, omega, Q, B0, B1):
    for k in range(K):
        lemma_invariant_dft_poly2(x1, x2, w, starts, k, L, omega, Q, B0[k], B1[k])
    return None


def lemma_trend_invariance_poly3(x1, x2, y, w, starts, K, L, omega, Q, B0, B1, B2):
    for k in range(K):
        lemma_invariant_dft_poly3(x1, x2, w, starts, k, L, omega, Q, B0[k], B1[k], B2[k])
    return None



# ---- C19: mean removal is idempotent and annihilates constants (lemmas over polynomial_detrend's contract) -------------


def lemma_detrend0_idempotent(x):
    y = polynomial_detrend(x, 0)
    z = polynomial_detrend(y, 0)
    return (y, z)


def lemma_detrend0_annihilates_constants(x, c):
    lemma_sum_shift(x, c, len(x))
    y = polynomial_detrend(x, 0)
    return y



# ---- C17: filtering a record in two blocks with the carried state equals filtering it at once (one section) -----------


def lemma_chunking_one_section(x, a_coeffs, b_coeffs, z0, a):
    n = len(x)
    zA = z0.copy()
    zB = z0.copy()
    Y, zs = _numba_lfilter_cascade(x, a_coeffs, b_coeffs, zA)
    y1, z1 = _numba_lfilter_cascade(x[:a], a_coeffs, b_coeffs, zB)
    y2, z2 = _numba_lfilter_cascade(x[a:], a_coeffs, b_coeffs, z1)
    for j in range(a):
        pass
    for j in range(n - a):
        pass
    return (Y, zs, y1, y2, z2)
