"""Spec functions (the mathematical vocabulary of the contracts).

This file is read twice: symbolically by pyvc (each def becomes a ghost
closure; Sum / cosn / sinn / sqrt ... are the uninterpreted primitives of
pyvc.spec) and concretely by the run-time harness (the same names are
injected as plain Python/NumPy functions).  Only the subset of Python that
pyvc interprets may be used here.
"""


def E(w, n):
    # the complex unit exp(-i*w*n): the property's own DFT kernel
    return complex(cosn(w, n), -sinn(w, n))


def Dft(v, L, w):
    # X(w) = sum_n v[n] * exp(-i*w*n)
    return Sum(0, L, lambda n: v(n) * E(w, n))


def Mean(K, f):
    return Sum(0, K, f) / K


def SegMean(x, s, L):
    return Sum(0, L, lambda n: x[s + n]) / L


def Alpha(x, Q, s, L, k):
    # k-th coefficient of the projection of the segment on the columns of Q
    return Sum(0, L, lambda m: Q[m, k] * x[s + m])
