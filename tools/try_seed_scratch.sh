#!/bin/bash
# try_seed_scratch.sh <patch-file> <tag> <Cxx> [...props]: apply a seeded change to a scratch worktree of /repo (never to
# /repo itself), run the quick checks against it (VERIF_REPO), remove the worktree.  Safe to run next to other checks.
PATCH=$1; TAG=$2; shift; shift
WT=/tmp/seedrepo_$TAG
git -C /repo worktree remove --force $WT >/dev/null 2>&1
git -C /repo worktree add --detach $WT HEAD >/dev/null 2>&1 || { echo "cannot create worktree"; exit 2; }
git -C $WT apply $PATCH || { echo "patch does not apply"; git -C /repo worktree remove --force $WT; exit 2; }
for P in "$@"; do
  cd /verif && VERIF_REPO=$WT PYVC_OUT_DIR=/tmp/seed_out_$TAG ./check $P > /tmp/try_${TAG}_$P.log 2>&1; echo "seed=$TAG check=$P exit=$? :: $(grep -c '^VIOLATION' /tmp/try_${TAG}_$P.log) violation lines; $(tail -1 /tmp/try_${TAG}_$P.log)"
  grep '^VIOLATION\|^UNDECIDED\|^CHECKER' /tmp/try_${TAG}_$P.log | head -5
done
git -C /repo worktree remove --force $WT
rm -rf /tmp/seed_out_$TAG
