#!/bin/bash
# try_seed.sh <seed-id> <Cxx> [...props]: apply a seeded change to /repo, run the quick checks, undo it
SEED=$1; shift
git -C /repo apply /verif/seeded/$SEED/patch.diff || { echo "patch does not apply"; exit 2; }
for P in "$@"; do
  cd /verif && ./check $P > /tmp/try_${SEED}_$P.log 2>&1; echo "seed=$SEED check=$P exit=$? :: $(grep -c '^VIOLATION' /tmp/try_${SEED}_$P.log) violation lines; $(tail -1 /tmp/try_${SEED}_$P.log)"
  grep '^VIOLATION\|^UNDECIDED\|^CHECKER' /tmp/try_${SEED}_$P.log | head -5
done
git -C /repo checkout -- .
