#!/bin/bash
# confirm_seed2.sh <Cxx>: round-3 seeds (worktree /tmp/wt5/<Cxx>, files in out/): suite green with the change, demo
# fails with it and passes without it; store under /verif/seeded5/<Cxx>/ with meta.json
set -u
ID=$1; WT=/tmp/wt5/$ID; OUT=/verif/seeded5/$ID
cd "$WT" || exit 2
export PYTHONPATH=$WT NUMBA_CACHE_DIR=$WT/.nbcache MPLBACKEND=Agg
git checkout -q -- speckit; git apply out/patch.diff || { echo "patch does not apply"; exit 2; }
SUITE=$(/venv/bin/python -m pytest -q -p no:cacheprovider --timeout=900 --continue-on-collection-errors 2>&1 | tail -1)
/venv/bin/python out/demo_$ID.py > out/demo_with.log 2>&1; WITH=$?
git checkout -q -- speckit
/venv/bin/python out/demo_$ID.py > out/demo_without.log 2>&1; WITHOUT=$?
echo "$ID suite: $SUITE | demo with change exit=$WITH | without exit=$WITHOUT"
if echo "$SUITE" | grep -q "99 passed" && [ $WITH -ne 0 ] && [ $WITHOUT -eq 0 ]; then
  mkdir -p $OUT; cp out/patch.diff $OUT/patch.diff; cp out/demo_$ID.py $OUT/demo_$ID.py
  python3 - "$ID" "$SUITE" "$WITH" "$WITHOUT" <<'PY'
import json,sys
ID,suite,w,wo=sys.argv[1:5]
json.dump({"property":ID,"round":5,"confirmed":{"suite_with_change":suite,"demo_exit_with_change":int(w),"demo_exit_without_change":int(wo)}},open(f"/verif/seeded5/{ID}/meta.json","w"),indent=1)
PY
  echo CONFIRMED
else
  echo NOT-CONFIRMED
fi
