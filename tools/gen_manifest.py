#!/usr/bin/env python3
"""(re)generate MANIFEST.json from the table below"""
import json, os
V = os.path.dirname(os.path.dirname(os.path.abspath(__file__)))
props = [json.loads(l)["id"] for l in open(os.path.join(V, "properties.jsonl"))]
NOTE = ("floats treated as exact reals (A-REAL); int64 as unbounded ints; NumPy/SciPy/Numba/CUDA semantics as the assumed contracts of "
        "DESIGN.md section 3 (listed per run in evidence coverage.trusted_base); pyvc (AST interpreter + VC generator) and z3/cvc5 trusted")
CLAIMS = {
 "C01": ("proof", "4.C01", "Every helper, reducer, the 6 Numba kernels, 6 CUDA device kernels + host wrappers and 4 of the 6 NumPy fallbacks are symbolically executed from /repo and proved, for all records/starts/windows/omega/L, equal to the property's own windowed-DFT definition (spec function Dft with exp(-i w n)); the two polynomial-detrend NumPy fallbacks are bounded-only (run-time contract check), the float rounding budget is sampled, both labelled in the evidence."),
 "C02": ("proof", "4.C02", "All four schedulers (ltf, lpsd, vectorized_ltf, new_ltf): loop invariants, block contracts and per-bin postconditions (starts in bounds, strictly increasing from 0, last segment ends at N, K=navg=len(D), max(1,Lmin)<=L<=N, single-segment rule, nf>=1, termination variant) proved for every admissible configuration; SpectrumAnalyzer.plan() proved against the schedulers' contracts: no validation branch can raise, the cached plan satisfies the same statements (also under a band filter)."),
 "C03": ("proof", "4.C03", "r*L=fs, b=f/r=f*L/fs, f[0]=bmin*fs/N, stepping f[j+1]=f[j]+r[j], strictly increasing, below Nyquist proved at an arbitrary bin for all four schedulers and again for plan(); bmin up to the rounding of L proved for ltf/lpsd/new_ltf; for the vectorised scheduler the lookup-grid slack is a bounded run-time clause; lpsd_plan proved against ltf_plan's contract with bmin=1, Lmin=1."),
 "C05": ("proof", "4.C05", "compute_single_bin and _lpsd_core (all order x mode x backend dispatch variants, Kaiser and callable windows): the kernel that runs is the one for (order, mode, backend), its arguments are the record, omega=2*pi*f/fs of this bin, this bin's starts and L, the configured window and the cached basis Q(L, order) (cache invariants), reported statistics are the kernel's results and the window sums; compute(): bin i's row goes to slot i of every result array and plan fields are handed over: proved. The kernels' own meaning is C01. End-to-end equality with an independent reference estimator is a bounded stand-in."),
 "C06": ("proof", "4.C06", "ENBW, Gxx/Gyy/Gxy normalisation and ps=psd*ENBW=2*XX/S12 proved for the real __getattr__ branches at an arbitrary bin; sinusoid calibration reduces to the window property (bounded, C12)."),
 "C07": ("other", "4.C07", "Proved: Hxy = conj(Gxy)/Gxx on the real attribute code; XY is the kernel's mean of X conj(Y) with X the exp(-i w n) DFT on all three backends (C01 kernel posts), the dispatch picks the kernel of the selected backend and hands XY through _lpsd_core/compute unchanged - so the sign convention conj(X)Y/|X|^2 is identical on every backend. The relational clauses (y = g x gives H = g and coh = 1; delay gives phase -2 pi f d/fs) are bounded run-time checks only, so the property as a whole is not claimed as proof."),
 "C08": ("other", "4.C08", "Proved: order -> kernel family dispatch, Q built for (L, order) by _build_Q (orthonormal-columns post relative to the assumed QR contract) and cached per (L, order), kernels subtract the projection on span(Q) before windowing (C01 kernel posts), order -1 uses the raw windowed segments. The relational clauses (adding a polynomial of degree <= p changes nothing, degree p+1 does) are bounded run-time checks only, so the property as a whole is not claimed as proof."),
 "C09": ("proof", "4.C09", "coh in [0,1], |Gxy|^2<=Gxx*Gyy, coh=1 for one segment, GyyCx+GyyRx=Gyy, GyySx=Gyy(1-coh) proved on the real attribute code under the result invariant (Cauchy-Schwarz is part of the invariant)."),
 "C10": ("proof", "4.C10", "each *_dev/*_error branch equals the textbook closed form; dev = estimate*error; mag <= rad <= pi/2*mag error; deg = 180/pi rad: proved with sqrt/arcsin as axiomatised uninterpreted functions. The Monte-Carlo clause is statistical: not decided."),
 "C11": ("proof", "4.C11", "M2 = population variance of per-segment products (reducers + every kernel), emp var = M2/navg, emp devs = 2/(fs*S2)*sqrt(M2/navg), None rules: proved."),
 "C12": ("other", "4.C12", "What the speckit code contributes is proved: the Kaiser window handed to every kernel is np.kaiser(L+1, alpha*pi)[:-1] with the configured alpha (compute_single_bin/_lpsd_core call-site obligations). The side-lobe level of the Kaiser window itself (a statement about Bessel functions over a continuum of offsets) is not decidable by contracts here: bounded grid only, so the property as a whole is not claimed as proof."),
 "C13": ("proof", "4.C13", "SpectrumAnalyzer.__init__ for the 1-D, 2xN, Nx2 and list layouts: the stored record equals the input with non-finite samples replaced by zero, channel/length rules, and the caller's array is never written (frame obligation over buffer identities with a contiguity model): proved. Finite results for degenerate records and layout independence end to end: bounded run-time checks."),
 "C14": ("proof", "4.C14", "call-history independence: compute_single_bin/_lpsd_core/compute leave record, configuration and plan cache untouched (frame obligations), window/Q caches hold exactly the values a fresh computation produces (cache invariants), __getattr__ caches only the value it returns (C20); CUDA/Numba kernels write only their own output slot (C01 frame obligations). Thread-schedule independence of Numba prange is an assumed semantics (listed); access-order independence is additionally sampled (bounded)."),
 "C15": ("other", "4.C15", "SISO path and the algebraic residual certificate (q=1..3) are proved; the two MISO functions (sympy solve / per-bin numpy.linalg.solve) are outside the interpreted subset and are checked at run time only (bounded), so the property as a whole is not claimed as proof."),
 "C16": ("proof", "4.C16", "lagrange_taps: for each halfp the real function is executed symbolically (loops unrolled) and every tap is proved equal to the textbook Lagrange weight, and the taps to sum to one, by exact polynomial identity testing over Fractions (quick: halfp in {1,2,3,4,5,7,8,16}; thorough: all 1..56); timeshift constant-shift path: integer/fraction split, edge padding and correlation give the end-held stencil for all n and all real shifts: proved. Time-varying path / DataFrame wrapper: bounded."),
 "C17": ("proof", "4.C17", "IIR cascade: each section realises the direct-form recurrence from the carried state and returns the final state; state hand-over of get_series (alpha/red), one seeded draw per request: proved; chunking invariance on a generator/seed/chunk grid is a bounded stand-in."),
 "C18": ("proof", "4.C18", "fftnoise Hermitian mirror / magnitude preservation / real DC and Nyquist for every length (odd and even) and white variance psd*fs: proved; the 1/f^alpha shape clause is not decided (bounded grid only)."),
 "C19": ("proof", "4.C19", "polynomial_detrend order 0 exact (mean removal, sum zero by an inductive lemma), orders 1..5 orthogonality relative to the assumed least-squares contract of np.polyfit; crop_data is the inclusive order-preserving selection; integral_rms^2 is the trapezoid over it (assumed cumulative_trapezoid contract): proved. Idempotence/Parseval: bounded."),
 "C20": ("proof", "4.C20", "every one of the 45 derived attributes x {auto, cross} equals its documented function of the base estimates at an arbitrary bin, None rules, unknown names raise AttributeError, cache/frame obligations, __getattr__ on a bare instance terminates with AttributeError (copy/pickle): proved on the real __getattr__; get_measurement / to_dataframe / copy / pickle round trips: bounded run-time checks."),
}
NA = {
 "C04": "check under construction (monotone L/K via ghost replay of the loop body, log spacing, forced bin count); not yet claimed",
}
checks = []
for p, (lvl, ref, text) in CLAIMS.items():
    checks.append({
        "property_id": p,
        "quick_cmd": f"./check {p} --tier quick",
        "thorough_cmd": f"./check {p} --tier thorough",
        "evidence_file": f"evidence/{p}.json",
        "replay_cmd_template": f"./check {p} --replay {{path}}",
        "engine": "pyvc",
        "level_claimed": {"category": lvl, "text": text, "design_ref": ref},
        "level_note": NOTE,
        "technique": "contract-based deductive verification: sidecar pre/postconditions and loop invariants on the real Python functions, VCs generated by symbolic execution of /repo's AST (pyvc), discharged by z3 (nlsat / SMT) with cvc5 as second solver; refutations replayed on the real code",
    })
m = {
 "version": 1,
 "setup_cmd": "python3-vt -m compileall -q pyvc contracts specs replay >/dev/null 2>&1; python3-vt -c 'import z3; print(z3.get_version_string())'",
 "hooks": {"guard": "SPECKIT_VERIF", "enable": "no hooks are installed in /repo: contracts are sidecar files under /verif/contracts, read against /repo's working tree on every run", "baseline_off_cmd": "cd /repo && /venv/bin/python -m pytest -ra -q -p no:cacheprovider --timeout=900 --continue-on-collection-errors", "source_commits": [], "add_only": True},
 "engines": [{"name": "pyvc", "path": "pyvc/", "serves_properties": sorted(CLAIMS), "kind_free_text": "verification-condition generator: symbolic execution of the real Python AST from /repo against sidecar contracts (contracts/*.py), spec functions (specs/), obligations discharged by z3/cvc5; run-time contract harness (replay/harness.py) for replays and bounded stand-ins"}],
 "checks": checks,
 "not_applicable": [{"property_id": p, "reason": NA[p]} for p in props if p not in CLAIMS],
 "notes": "contract-based deductive verification of the real code; see DESIGN.md. Fix commits in /repo: GyySx conjugate pairing, segment-count cap in ltf/lpsd, NumPy cross-spectral sign, red_noise empty request (known_findings.json, section 'fixed').",
}
json.dump(m, open(os.path.join(V, "MANIFEST.json"), "w"), indent=1)
print("claimed", sorted(CLAIMS))
