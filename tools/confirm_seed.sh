#!/bin/bash
# confirm_seed.sh <Cxx> [<worktree>]: re-verify a sub-agent's change in its scratch worktree:
#  suite green with the change, demo fails with it and passes without it; then store it under /verif/seeded/<Cxx>/
set -u
ID=$1; WT=${2:-/tmp/wt/$ID}; OUT=/verif/seeded/$ID
cd "$WT" || exit 2
export PYTHONPATH=$WT NUMBA_CACHE_DIR=$WT/.nbcache MPLBACKEND=Agg
git checkout -q -- speckit; git apply patch.diff || { echo "patch does not apply"; exit 2; }
SUITE=$(/venv/bin/python -m pytest -q -p no:cacheprovider --timeout=900 --continue-on-collection-errors 2>&1 | tail -1)
/venv/bin/python demo_$ID.py > demo_with.log 2>&1; WITH=$?
git checkout -q -- speckit
/venv/bin/python demo_$ID.py > demo_without.log 2>&1; WITHOUT=$?
git apply patch.diff
echo "suite: $SUITE | demo with change exit=$WITH | without exit=$WITHOUT"
if echo "$SUITE" | grep -q "99 passed" && [ $WITH -ne 0 ] && [ $WITHOUT -eq 0 ]; then
  mkdir -p $OUT; cp patch.diff $OUT/patch.diff; cp demo_$ID.py $OUT/demo_$ID.py
  python3 - "$ID" "$SUITE" "$WITH" "$WITHOUT" <<'PY'
import json,sys,os
ID,suite,w,wo=sys.argv[1:5]
p=f"/verif/seeded/{ID}/meta.json"
m=json.load(open(p)) if os.path.exists(p) else {}
m.update({"property":ID,"confirmed":{"suite_with_change":suite,"demo_exit_with_change":int(w),"demo_exit_without_change":int(wo),
 "commands":[f"cd /tmp/wt/{ID} && git apply patch.diff && PYTHONPATH=/tmp/wt/{ID} /venv/bin/python -m pytest -q -p no:cacheprovider --timeout=900 --continue-on-collection-errors",f"PYTHONPATH=/tmp/wt/{ID} /venv/bin/python demo_{ID}.py (with and without the change)"]}})
json.dump(m,open(p,"w"),indent=1)
PY
  echo CONFIRMED
else
  echo NOT-CONFIRMED
fi
