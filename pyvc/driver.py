"""Per-property driver: prove the units, replay refutations, write evidence."""
from __future__ import annotations

import json
import re
import os
import subprocess
import sys
import tempfile
import time
import traceback

from .main import VERIF, REPO, load_contract_modules, all_units, known_findings

GLOBAL_ASSUMPTIONS = [
    "A-REAL: IEEE-754 doubles are treated as exact reals (no rounding, overflow, NaN); nan_to_num on computed values is the identity",
    "A-INT: NumPy int64 treated as unbounded integers",
    "A-ELEM: NumPy ufuncs/arithmetic act elementwise with documented broadcasting; a statement proved at one symbolic index holds for the array",
    "A-JIT: numba njit/cuda.jit compile the decorated Python source with Python semantics on the subset used; prange iterations run once each in some order; a CUDA launch [blocks,T] runs the body for every j in 0..blocks*T-1",
    "A-DET: library functions are deterministic functions of their arguments",
    "pyvc itself (AST interpreter, VC generator, instantiation) and z3/cvc5 are trusted",
]


OUT = os.environ.get("PYVC_OUT_DIR", VERIF)  # evidence/ and replays/ go here (scratch runs on seeded copies use their own)


def evidence_path(prop):
    return os.path.join(OUT, "evidence", f"{prop}.json")


def write_crash_evidence(prop, tier, seed, wall, tb):
    os.makedirs(os.path.join(OUT, "evidence"), exist_ok=True)
    ev = {
        "property_id": prop,
        "tier": tier if tier in ("quick", "thorough") else "quick",
        "seed": seed,
        "level": "other",
        "coverage": {"explanation": "checker crashed before producing a verdict (exit 3); nothing is claimed", "traceback": tb[-2000:]},
        "wall_s": wall,
        "violations": 0,
    }
    with open(evidence_path(prop), "w") as fh:
        json.dump(ev, fh, indent=1)


def run_harness(payload, cudasim=False, timeout=1800):
    """run the run-time contract harness under /venv/bin/python; returns parsed JSON"""
    scratch = tempfile.mkdtemp(prefix="pyvc_rt_")
    inp = os.path.join(scratch, "in.json")
    outp = os.path.join(scratch, "out.json")
    with open(inp, "w") as fh:
        json.dump(payload, fh)
    env = dict(os.environ)
    env["PYTHONPATH"] = REPO + os.pathsep + VERIF
    env["NUMBA_CACHE_DIR"] = os.path.join(scratch, "nbcache")
    env["MPLBACKEND"] = "Agg"
    if cudasim:
        env["NUMBA_ENABLE_CUDASIM"] = "1"
    try:
        p = subprocess.run(["/venv/bin/python", os.path.join(VERIF, "replay", "harness.py"), inp, outp], env=env, capture_output=True, text=True, timeout=timeout, cwd=scratch)
        if os.path.exists(outp):
            with open(outp) as fh:
                res = json.load(fh)
        else:
            res = {"error": (p.stderr or "")[-3000:], "stdout": (p.stdout or "")[-1000:]}
        return res
    except subprocess.TimeoutExpired:
        return {"error": "harness timeout"}
    finally:
        import shutil

        shutil.rmtree(scratch, ignore_errors=True)


def run_property(prop, tier, seed, args):
    t0 = time.time()
    from .engine import Engine
    from .contract import prove_unit
    from .values import Unsupported, VerifError
    from .run import load_specs, solve_all
    from . import solve

    mods = load_contract_modules()
    units = all_units(mods)
    eng = Engine(REPO)
    load_specs(eng)
    for u in units:
        eng.contracts_all[u.id] = u
        if u.opts.get("callee", "[" not in u.id):
            eng.contracts[u.key] = u
    for m in mods:
        ins = getattr(m, "install", None)
        if ins:
            ins(eng)
    selected = [u for u in units if prop in u.props and not (u.opts.get("tier") == "thorough" and tier != "thorough")]
    if args.units:
        want = set(args.units.split(";" if ";" in args.units or "[" in args.units else ","))
        selected = [u for u in selected if u.id in want]
    pinfo = {}
    for m in mods:
        for pk, pv in getattr(m, "PROPERTY_INFO", {}).items():
            cur = pinfo.setdefault(pk, {})
            for kk, vv in pv.items():
                if isinstance(vv, list):
                    cur[kk] = list(cur.get(kk, [])) + [x for x in vv if x not in cur.get(kk, [])]
                else:
                    cur[kk] = vv
    info = pinfo.get(prop, {})
    timeout_ms = 20000 if tier == "quick" else 120000
    undecided_units = []
    func_hashes = {}
    per_unit_obs = {}
    bounded_units = [u.id for u in selected if u.opts.get("bounded_only")]
    for u in selected:
        n0 = len(eng.obligations)
        c0 = len(eng.covers)
        if u.opts.get("bounded_only"):
            # not brought within the verifier's reach: run-time contract check only (labelled bounded)
            per_unit_obs[u.id] = (n0, n0)
            continue
        try:
            if u.kind == "function":
                prove_unit(eng, u, prop)
                mod = eng.module(u.module)
                func_hashes[f"{u.module}:{u.func}"] = mod.func_hash(u.func)
            elif u.kind == "lemma":
                eng.unit = u.id
                eng.prop = prop
                u.setup(eng, prop)
            else:
                raise VerifError(f"unit kind {u.kind}")
        except Unsupported as e:
            undecided_units.append((u.id, f"unsupported: {e}"))
            del eng.obligations[n0:]
            del eng.covers[c0:]
            if args.verbose:
                traceback.print_exc()
        except Exception as e:  # a source change the interpreter cannot follow: undecided, never a verdict
            undecided_units.append((u.id, f"interpreter could not follow the source ({type(e).__name__}: {str(e)[:200]})"))
            del eng.obligations[n0:]
            del eng.covers[c0:]
            if args.verbose:
                traceback.print_exc()
        per_unit_obs[u.id] = (n0, len(eng.obligations))
    obs = list(eng.obligations)
    covers = list(eng.covers)
    if args.verbose:
        print(f"[{prop}] {len(selected)} units, {len(obs)} obligations, {len(covers)} covers; executing took {time.time()-t0:.1f}s", flush=True)
    os.environ.setdefault("PYVC_BUDGET_S", "1500" if tier == "quick" else "5400")
    res = solve_all(eng, obs + covers, timeout_ms=timeout_ms, cvc5_all=(tier == "thorough"), seed=seed)
    solve.close_pool()
    solver_time = sum(o.time for o in obs)
    if args.verbose:
        print(f"[{prop}] VC preparation {getattr(eng, 'prep_time', 0):.1f}s, solving done at {time.time()-t0:.1f}s", flush=True)
    discharged = [o for o in obs if o.status == "unsat"]
    refuted = [o for o in obs if o.status in ("sat", "sat-core")]
    unknown = [o for o in obs if o.status not in ("unsat", "sat", "sat-core")]
    # vacuity: an unsatisfiable precondition, or a unit none of whose return paths is reachable
    # (a single dead return path is dead code under the contract, not vacuity)
    dead = [c for c in covers if c.status == "unsat"]
    vacuous = [c for c in dead if c.name.endswith("cover:pre")]
    by_unit = {}
    for c in covers:
        if "/cover:return" in c.name:
            by_unit.setdefault(c.name.split("/cover:")[0], []).append(c)
    for un, cs in by_unit.items():
        if cs and all(c.status == "unsat" for c in cs):
            vacuous.extend(cs)
    disagree = [o for o in obs if o.raw.get("disagree")]
    if args.dump:
        os.makedirs(args.dump, exist_ok=True)
        for o in refuted + unknown:
            fn = os.path.join(args.dump, o.name.replace("/", "_").replace(":", "_") + ".smt2")
            with open(fn, "w") as fh:
                fh.write(o.smt_full or o.smt_core or "")
    if args.verbose:
        for o in sorted(obs + covers, key=lambda o: -(o.time + o.raw.get("prep", 0)))[:12]:
            print(f"  SLOW {o.time:6.1f}s prep={o.raw.get('prep', 0):5.1f}s {o.name} {o.raw.get('log')} FIRST={o.raw.get('first_attempt')}")
    if args.verbose:
        for o in refuted + unknown:
            print(f"  GOAL {o.name}: {str(o.goal)[:1500]}")
    if args.verbose:
        for o in obs:
            print(f"  {o.status:8s} {o.time:6.2f}s {o.name}  [{o.backend}]")
        for c in covers:
            print(f"  cover {c.status:8s} {c.name}")

    # ---- run-time contract harness: cross-check + bounded stand-ins + replay --------
    runtime = None
    unit_by_id = {u.id: u for u in units}
    if not args.no_runtime:
        payload = {
            "mode": "check",
            "prop": prop,
            "tier": tier,
            "seed": seed,
            "units": [u.id for u in selected if u.runtime and u.id not in info.get("cudasim_units", [])],
            "refuted": [{"obligation": o.name, "unit": o.name.split("/")[1], "kind": o.kind, "label": o.name.split(":", 1)[1] if ":" in o.name else "", "model": o.model} for o in refuted],
            "bounded": info.get("bounded", []),
            "known": [f for f in known_findings().get("findings", []) if f.get("property") == prop],
        }
        runtime = run_harness(payload)
        if info.get("cudasim_units"):
            p2 = dict(payload)
            p2["units"] = [x for x in info["cudasim_units"] if x in unit_by_id]
            p2["bounded"] = []
            p2["only_units"] = True
            rt2 = run_harness(p2, cudasim=True)
            if runtime is not None and "units" in runtime and "units" in rt2:
                runtime["units"].update(rt2["units"])
                runtime.setdefault("replays", {}).update({k: v for k, v in rt2.get("replays", {}).items() if v.get("found")})
            elif "error" in rt2:
                runtime.setdefault("errors", []).append("cudasim: " + rt2["error"][-500:])

    # ---- verdict ----------------------------------------------------------------------
    kf = known_findings()
    known = [f for f in kf.get("findings", []) if f.get("property") == prop]
    lines = []
    violations = []
    known_hit = []
    replays = (runtime or {}).get("replays", {})
    rdir = os.path.join(OUT, "replays", prop)
    os.makedirs(rdir, exist_ok=True)
    for fn_ in os.listdir(rdir):  # replay files are rewritten on every run
        try:
            os.unlink(os.path.join(rdir, fn_))
        except OSError:
            pass
    baseline = load_baseline().get(prop)
    for o in refuted:
        rp = replays.get(o.name, {})
        match = None
        for f in known:
            if f.get("obligation") == o.name:
                st_ = (runtime or {}).get("known_status", {}).get(f.get("id", f.get("obligation")))
                if st_ is None or st_.get("still_fails", False):
                    match = f
        if match is not None and not rp.get("differs_from_known", False):
            known_hit.append((o, match))
            continue
        path = os.path.join(OUT, "replays", prop, o.name.split("/", 1)[1].replace("/", "_").replace(":", "_") + ".json")
        rec = {
            "property": prop,
            "obligation": o.name,
            "kind": o.kind,
            "unit": o.name.split("/")[1],
            "function_hash": func_hashes,
            "solver": o.backend,
            "solver_status": o.status,
            "solver_log": o.raw.get("log"),
            "model": o.model,
            "replay": rp,
            "rerun": f"./check {prop} --replay {path}",
        }
        with open(path, "w") as fh:
            json.dump(rec, fh, indent=1, default=str)
        in_base = baseline is None or o.name in baseline
        if rp.get("found"):
            violations.append((o, path, True))
        elif o.status == "sat":
            # counter-model of the complete VC; no concrete input reproduced it
            violations.append((o, path, False))
        else:
            # model of a weakened VC only (quantifier-free core / cone of influence) and no
            # concrete failing input: undecided, never reported as a violation
            unknown.append(o)
    # run-time failures of clauses (bounded stand-in / cross-check) on their own
    rt_viol = []
    rt_err = []
    if runtime:
        if "error" in runtime:
            rt_err.append(runtime["error"][-800:])
        for uid, ur in runtime.get("units", {}).items():
            for fl in ur.get("failures", []):
                rt_viol.append((uid, fl))
        for b in runtime.get("bounded", []):
            for fl in b.get("failures", []):
                rt_viol.append((b["name"], fl))
    exit_code = 0
    out_lines = []
    for o, f in known_hit:
        out_lines.append(f"KNOWN-FINDING: property={prop} {f.get('what', o.name)} [{o.name}]")
    # known findings that are bounded/runtime-only
    rt_known = (runtime or {}).get("known_status", {})
    proved_names = {o.name for o in discharged}
    for uid, fl in rt_viol:
        fid = fl.get("known_id")
        f = [x for x in known if x.get("id") == fid] if fid else []
        if f:
            out_lines.append(f"KNOWN-FINDING: property={prop} {f[0].get('what')}")
            continue
        path = os.path.join(OUT, "replays", prop, f"runtime_{uid}_{fl.get('label','x')}".replace("/", "_").replace(":", "_").replace("[", "_").replace("]", "_") + ".json")
        with open(path, "w") as fh:
            json.dump({"property": prop, "unit": uid, "runtime_failure": fl, "rerun": f"./check {prop} --replay {path}"}, fh, indent=1, default=str)
        out_lines.append(f"VIOLATION property={prop} replay={path}")
        exit_code = 1
    for o, path, found in violations:
        out_lines.append(f"VIOLATION property={prop} replay={path}" + ("" if found else " no-failing-input-found"))
        exit_code = 1
    missing = []
    if baseline is not None and not args.units:
        now = {o.name for o in obs}
        missing = sorted(set(baseline) - now)
    if exit_code == 0:
        if vacuous or disagree or rt_err:
            exit_code = 3
        elif unknown or undecided_units or missing:
            exit_code = 2
        elif not obs and not info.get("bounded"):
            exit_code = 3
    for l in out_lines:
        print(l)
    if vacuous:
        print(f"CHECKER-ERROR: vacuous hypotheses (cover unsatisfiable): {[c.name for c in vacuous][:5]}")
    if disagree:
        print(f"CHECKER-ERROR: solver disagreement on {[o.name for o in disagree][:5]}")
    if rt_err:
        print(f"CHECKER-ERROR: run-time harness failed: {rt_err[0][-600:]}")
    for uid, why in undecided_units:
        print(f"UNDECIDED: unit {uid}: {why}")
    for o in unknown[:20]:
        print(f"UNDECIDED: obligation {o.name}: {o.status} ({o.detail})")
    for n in missing[:20]:
        print(f"UNDECIDED: baseline obligation no longer generated: {n}")

    # ---- evidence -------------------------------------------------------------------------
    by_backend = {}
    for o in discharged:
        bk = re.sub(r" \[cone of influence depth \d+: \d+ of \d+ hypotheses\]", " [cone-of-influence subset of the hypotheses]", o.backend or "?")
        by_backend[bk] = by_backend.get(bk, 0) + 1
    trusted = list(GLOBAL_ASSUMPTIONS)
    trusted += sorted(eng.trusted)
    trusted += [f"callee contract used at call sites (proved under its own unit): {k}" for k in sorted(eng.trusted_calls)]
    trusted += info.get("trusted", [])
    n_known = len(known_hit)
    level = info.get("level", "proof")
    all_ok = (len(discharged) == len(obs)) and obs
    if level == "proof" and not all_ok:
        level = "other"
    cov = {
        "obligations": len(obs),
        "discharged": len(discharged),
        "refuted": len(refuted),
        "open": len(unknown),
        "checker_cmd": f"./check {prop} --tier {tier}",
        "trusted_base": trusted,
        "by_backend": by_backend,
        "solver_time_s": round(solver_time, 2),
        "functions_under_contract": func_hashes,
        "units": [u.id for u in selected],
        "undecided_units": undecided_units,
        "bounded_only_units": [{"unit": b, "reason": unit_by_id[b].opts.get("bounded_only"), "note": "contract checked at run time on seeded samples only; not counted in obligations/discharged"} for b in bounded_units],
        "covers_checked": len(covers),
        "covers_unsat": [c.name for c in vacuous],
        "dead_paths_under_contract": [c.name for c in dead if c not in vacuous],
        "samples": [{"obligation": o.name, "status": o.status, "backend": o.backend, "time_s": round(o.time, 3)} for o in (obs[:12] + refuted[:8])],
        "not_decided": info.get("not_decided", []),
        "known_findings": [{"obligation": o.name, "what": f.get("what")} for o, f in known_hit],
        "missing_baseline_obligations": missing,
        "explanation": (info.get("explanation") or "contract-based deductive check: obligations generated from /repo's current source by pyvc; see obligations/discharged/by_backend and the lists not_decided, bounded_standins, bounded_only_units, known_findings") + (" | run-time contract harness: " + json.dumps({k: {kk: vv for kk, vv in v.items() if kk != "failures"} for k, v in (runtime or {}).get("units", {}).items()})[:1500] if runtime else ""),
        "bounded_standins": (runtime or {}).get("bounded", []),
        "crosscheck": {k: {kk: vv for kk, vv in v.items() if kk in ("samples", "clauses_evaluated", "failed")} for k, v in (runtime or {}).get("units", {}).items()},
        "exit_code": exit_code,
    }
    ev = {
        "property_id": prop,
        "tier": tier if tier in ("quick", "thorough") else "quick",
        "seed": seed,
        "level": level,
        "coverage": cov,
        "assumptions": trusted,
        "wall_s": round(time.time() - t0, 2),
        "violations": sum(1 for l in out_lines if l.startswith("VIOLATION")),
    }
    os.makedirs(os.path.join(OUT, "evidence"), exist_ok=True)
    with open(evidence_path(prop), "w") as fh:
        json.dump(ev, fh, indent=1, default=str)
    print(f"[{prop}] obligations={len(obs)} discharged={len(discharged)} refuted={len(refuted)} open={len(unknown)} known={n_known} covers={len(covers)} solver_time={solver_time:.1f}s wall={time.time()-t0:.1f}s exit={exit_code}")
    if os.environ.get("PYVC_WRITE_BASELINE") == "1":
        b = load_baseline()
        b[prop] = sorted(o.name for o in obs)
        with open(os.path.join(VERIF, "contracts", "obligations.baseline.json"), "w") as fh:
            json.dump(b, fh, indent=0, sort_keys=True)
    return exit_code


def load_baseline():
    p = os.path.join(VERIF, "contracts", "obligations.baseline.json")
    if os.path.exists(p):
        with open(p) as fh:
            return json.load(fh)
    return {}
