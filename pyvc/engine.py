"""pyvc engine: symbolic execution of Python ASTs taken from /repo into named
verification conditions.

The executor interprets the *real* source: ``Module.load`` parses a repository
file, functions are looked up by qualified name and their AST is walked.  It
drops decorators, docstrings, annotations and logging calls; everything else
must be interpretable or the run aborts with ``Unsupported`` (undecided).
"""
from __future__ import annotations

import ast
import hashlib
import os
import textwrap
from fractions import Fraction

import z3

from . import values as V
from .values import Sym, Cx, Opaque, StrV, Unsupported, VerifError
from .heap import (
    Ref,
    ListV,
    DictV,
    ArrV,
    ObjV,
    Closure,
    Builtin,
    ModuleV,
    BoundMethod,
    SliceV,
    ExcV,
    _ite_any,
)


# ----------------------------------------------------------------------------
# source modules


class Module:
    def __init__(self, path, relname):
        self.path = path
        self.relname = relname
        with open(path, "r", encoding="utf-8") as fh:
            self.source = fh.read()
        self.tree = ast.parse(self.source, filename=path)
        self.functions = {}
        self.classes = {}
        self.constants = {}
        self.imports = {}  # local name -> (module, attr) | ('module', name)
        self._index()

    def _index(self):
        def visit(body, prefix, top):
            for node in body:
                if isinstance(node, (ast.FunctionDef,)):
                    self.functions[prefix + node.name] = node
                    for sub in ast.walk(node):
                        if isinstance(sub, ast.FunctionDef) and sub is not node:
                            self.functions.setdefault(prefix + node.name + "." + sub.name, sub)
                elif isinstance(node, ast.ClassDef):
                    self.classes[prefix + node.name] = node
                    visit(node.body, prefix + node.name + ".", False)
                elif top and isinstance(node, ast.Assign) and len(node.targets) == 1 and isinstance(node.targets[0], ast.Name):
                    self.constants[node.targets[0].id] = node.value
                elif top and isinstance(node, (ast.Import, ast.ImportFrom)):
                    self._imp(node)
                elif top and isinstance(node, (ast.Try, ast.If)):
                    # optional-import blocks: index what the first alternative binds
                    for sub in node.body:
                        if isinstance(sub, (ast.Import, ast.ImportFrom)):
                            self._imp(sub)
                        elif isinstance(sub, ast.Assign) and len(sub.targets) == 1 and isinstance(sub.targets[0], ast.Name):
                            self.constants.setdefault(sub.targets[0].id, sub.value)

        visit(self.tree.body, "", True)

    def _imp(self, node):
        if isinstance(node, ast.Import):
            for a in node.names:
                self.imports[a.asname or a.name.split(".")[0]] = ("module", a.name)
        else:
            for a in node.names:
                self.imports[a.asname or a.name] = (("." * node.level) + (node.module or ""), a.name)

    def func_source(self, qualname):
        node = self.functions[qualname]
        return ast.get_source_segment(self.source, node)

    def func_hash(self, qualname):
        return hashlib.sha256(self.func_source(qualname).encode()).hexdigest()[:16]


# ----------------------------------------------------------------------------
# state


class State:
    __slots__ = ("frames", "heap", "pc", "facts", "nextloc", "tags", "ghost")

    def __init__(self):
        self.frames = {}  # fid -> {'vars':{}, 'parent':fid|None, 'module':Module|None}
        self.heap = {}
        self.pc = []
        self.facts = []
        self.tags = {}
        self.ghost = 0

    def copy(self):
        s = State()
        s.frames = {k: {"vars": dict(f["vars"]), "parent": f["parent"], "module": f["module"]} for k, f in self.frames.items()}
        s.heap = dict(self.heap)
        s.pc = list(self.pc)
        s.facts = list(self.facts)
        s.tags = dict(self.tags)
        if "ghosts" in s.tags:
            s.tags["ghosts"] = dict(s.tags["ghosts"])
        if "named" in s.tags:
            s.tags["named"] = dict(s.tags["named"])
        s.ghost = self.ghost
        return s

    def name_hyp(self, label, b):
        """remember an assumed / proved fact under a label (lemma obligations may cite it)"""
        if isinstance(b, bool):
            return
        self.tags.setdefault("named", {})[label] = V.bool_term(b)

    def assume(self, b):
        if isinstance(b, bool):
            if not b:
                self.pc.append(z3.BoolVal(False))
            return
        self.pc.append(V.bool_term(b))

    def fact(self, t):
        self.facts.append(t)

    def hyps(self):
        return list(self.facts) + list(self.pc)


_fid = [0]
_loc = [0]


def new_fid():
    _fid[0] += 1
    return _fid[0]


def new_loc():
    _loc[0] += 1
    return _loc[0]


class CurState:
    """proxy for "the state currently being executed": lazily evaluated array element
    functions must attach facts / obligations to the path that *reads* them, not to
    the (possibly diverged) state object that existed when the array was built"""

    __slots__ = ("_eng",)

    def __init__(self, eng):
        object.__setattr__(self, "_eng", eng)

    def __getattr__(self, name):
        return getattr(object.__getattribute__(self, "_eng").cur_state, name)

    def __setattr__(self, name, value):
        setattr(object.__getattribute__(self, "_eng").cur_state, name, value)


class Obligation:
    def __init__(self, name, kind, hyps, goal, meta=None):
        self.name = name
        self.kind = kind
        self.hyps = hyps
        self.goal = goal
        self.meta = meta or {}
        self.status = None
        self.detail = None
        self.time = 0.0
        self.backend = None
        self.model = None


class Outcome:
    __slots__ = ("kind", "value")

    def __init__(self, kind, value=None):
        self.kind = kind
        self.value = value

    def __repr__(self):
        return f"Outcome({self.kind}, {self.value!r})"


NORMAL = Outcome("normal")


class PathLimit(Exception):
    pass


# ----------------------------------------------------------------------------
# engine


class Engine:
    def __init__(self, repo="/repo"):
        self.repo = repo
        self.modules = {}
        self.obligations = []
        self.covers = []
        self.ufs = {}
        self.contracts = {}  # 'module:qualname' -> contract dict
        self.contracts_all = {}  # unit id -> unit
        self._seen_obs = set()
        self.trusted = set()
        self.unit = "?"
        self.prop = "?"
        self.sum_registry = {}
        self.trig_registry = {}
        self.counter = {}
        self.notes = []
        self.max_paths = 4000
        self.npaths = 0
        self.loop_specs = {}
        self.loop_ord = {}
        self.builtins = {}
        self.call_hooks = {}
        self.spec_frame = None
        self.feas_solver_timeout = 400
        from . import pymodel, npmodel, spec

        self.trusted_calls = set()
        self.global_facts = []
        self.cur_state = None
        self.pst = CurState(self)
        spec.install(self)
        pymodel.install(self)
        npmodel.install(self)

    # ---------------------------------------------------------------- modules
    def module(self, rel):
        if rel not in self.modules:
            path = rel if os.path.isabs(rel) else os.path.join(self.repo, rel)
            self.modules[rel] = Module(path, rel)
        return self.modules[rel]

    def uf(self, name, *sig):
        key = (name, tuple(str(s) for s in sig))
        if key not in self.ufs:
            self.ufs[key] = z3.Function(name, *sig)
        return self.ufs[key]

    def fresh(self, base, kind="real"):
        n = self.counter.get(base, 0)
        self.counter[base] = n + 1
        nm = f"{base}!{n}"
        if kind == "int":
            return Sym(z3.Int(nm), "int")
        if kind == "bool":
            return Sym(z3.Bool(nm), "bool")
        if kind == "cx":
            return Cx(Sym(z3.Real(nm + ".re"), "real"), Sym(z3.Real(nm + ".im"), "real"))
        return Sym(z3.Real(nm), "real")

    def fresh_fn(self, base, nargs, kind="real"):
        n = self.counter.get(base, 0)
        self.counter[base] = n + 1
        nm = f"{base}!{n}"
        rng = {"int": z3.IntSort(), "real": z3.RealSort(), "bool": z3.BoolSort()}[kind]
        return z3.Function(nm, *([z3.IntSort()] * nargs), rng)

    def fresh_array(self, base, shape, dtype="real"):
        """array backed by fresh uninterpreted functions"""
        nd = len(shape)
        if dtype == "cx":
            fr = self.fresh_fn(base + ".re", nd, "real")
            fi = self.fresh_fn(base + ".im", nd, "real")

            def fn(idx, fr=fr, fi=fi):
                ts = [V.int_term(i) for i in idx]
                return Cx(Sym(fr(*ts), "real"), Sym(fi(*ts), "real"))

            a = ArrV(shape, fn, "cx", name=base)
            a.atom = (str(fr), str(fi))
            return a
        f = self.fresh_fn(base, nd, dtype)

        def fn(idx, f=f):
            return Sym(f(*[V.int_term(i) for i in idx]), dtype)

        a = ArrV(shape, fn, dtype, name=base)
        a.atom = (str(f),)
        a.uf = f
        return a

    # ------------------------------------------------------------ obligations
    def oblige(self, state, kind, label, goal, meta=None):
        """record goal as an obligation under the state's hypotheses, then assume it"""
        if state.ghost:
            return
        if isinstance(goal, bool):
            g = z3.BoolVal(goal)
        else:
            g = V.bool_term(goal)
        import re as _re

        meta = dict(meta or {})
        meta.setdefault("level", getattr(self, "sat_level", 0))
        # source line numbers are metadata, not part of the obligation's name: harmless edits
        # (comments, blank lines) must not rename obligations
        mline = _re.search(r"@(\d+)", label)
        if mline:
            meta.setdefault("line", int(mline.group(1)))
            label = _re.sub(r"@\d+", "", label)
        # the same goal under the same hypotheses is recorded once (lazily evaluated array
        # elements re-run their safety checks on every read)
        dk = (self.unit, kind, label, g.get_id(), len(state.pc), state.pc[-1].get_id() if state.pc else 0)
        if dk in self._seen_obs:
            state.pc.append(g)
            return
        self._seen_obs.add(dk)
        parts = _split_goal(g)
        if len(parts) > 1:
            for i, pg in enumerate(parts):
                self.oblige(state, kind, f"{label}.{i}", Sym(pg, "bool"), meta)
            return
        name = f"{self.prop}/{self.unit}/{kind}:{label}"
        n = self.counter.get(("ob", name), 0)
        self.counter[("ob", name)] = n + 1
        if n:
            name = f"{name}#{n}"
        hyps = state.hyps()
        lf = getattr(self, "lemma_from", None)
        if lf and kind in ("lemma", "post"):
            dotted = lambda n_: "." + n_.replace(":", ".") + "."
            cite = next((v for k_, v in lf.items() if dotted(k_) in dotted(label)), None)
            if cite is not None:
                # proof by explicit citation: only the named facts (a subset of the hypotheses: sound)
                named = state.tags.get("named", {})
                sel = []
                for c_ in cite:
                    hits = [t for n_, t in named.items() if dotted(c_) in dotted(n_)]
                    sel.extend(hits)
                meta["full_hyps"] = hyps
                hyps = list(state.facts) + sel  # facts: axiom instances of the uninterpreted functions
                meta["cited"] = list(cite)
        hidden = []
        for (u_, _n, _k), (_f, _rk, ax, reveal) in getattr(self, "opaque_fns", {}).items():
            if u_ == self.unit:
                if any(r in label for r in reveal):
                    hyps = hyps + [ax]
                else:
                    hidden.append(ax)
        if hidden:
            meta["hidden_axioms"] = hidden
        if "full_hyps" in meta:
            meta["full_hyps"] = meta["full_hyps"] + [a_ for a_ in hyps if a_.get_id() not in {h_.get_id() for h_ in meta["full_hyps"]}]
        ob = Obligation(name, kind, hyps, g, meta)
        self.obligations.append(ob)
        if not z3.is_false(g):
            state.pc.append(g)  # assert, then assume (a literal False is never assumed)
            state.tags.setdefault("named", {})[label] = g
        return ob

    def add_decided(self, kind, label, status, backend, time_s=0.0, detail=None, model=None):
        """an obligation decided by a non-SMT back end (exact polynomial identity testing)"""
        name = f"{self.prop}/{self.unit}/{kind}:{label}"
        ob = Obligation(name, kind, [], z3.BoolVal(True), {"decided": True})
        ob.status, ob.backend, ob.time, ob.detail, ob.model = status, backend, time_s, detail, model
        ob.raw = {"log": [(backend, status, round(time_s, 3))], "prep": 0.0}
        self.obligations.append(ob)
        return ob

    def add_decided_once(self, kind, label, status, backend, meta=None):
        name = f"{self.prop}/{self.unit}/{kind}:{label}"
        n = self.counter.get(("ob", name), 0)
        self.counter[("ob", name)] = n + 1
        if n:
            label = f"{label}#{n}"
        ob = self.add_decided(kind, label, status, backend)
        ob.meta.update(meta or {})
        return ob

    def cover(self, state, label):
        name = f"{self.prop}/{self.unit}/cover:{label}"
        n = self.counter.get(("cv", name), 0)
        self.counter[("cv", name)] = n + 1
        if n:
            name = f"{name}#{n}"
        ob = Obligation(name, "cover", state.hyps(), z3.BoolVal(True))
        self.covers.append(ob)

    def feasible(self, state):
        s = z3.Solver()
        s.set("timeout", self.feas_solver_timeout)
        for h in state.pc:
            s.add(h)
        # facts are only needed when the path condition alone is satisfiable
        r = s.check()
        if r == z3.unsat:
            return False
        return True

    # ----------------------------------------------------------------- frames
    def new_frame(self, state, parent=None, module=None):
        fid = new_fid()
        state.frames[fid] = {"vars": {}, "parent": parent, "module": module}
        return fid

    def lookup(self, state, fid, name):
        f = fid
        while f is not None:
            fr = state.frames[f]
            if name in fr["vars"]:
                return fr["vars"][name]
            mod = fr["module"]
            nxt = fr["parent"]
            if nxt is None and mod is not None:
                r = self.module_global(state, mod, name)
                if r is not _MISSING:
                    return r
            f = nxt
        if self.spec_frame is not None and name in self.spec_frame:
            return self.spec_frame[name]
        if name in self.builtins:
            return self.builtins[name]
        raise Unsupported(f"unbound name {name!r}")

    def module_global(self, state, mod, name):
        if name in mod.functions:
            return Closure(mod.functions[name], None, module=mod, name=name)
        if name in mod.classes:
            return Opaque(f"class:{mod.relname}:{name}", {"classname": name, "module": mod})
        ov = getattr(self, "global_overrides", {}).get((mod.relname, name), _MISSING)
        if ov is not _MISSING:
            return ov
        if name in mod.constants:
            node = mod.constants[name]
            try:
                return self.eval_const(node)
            except Exception:
                pass
        if name in mod.imports:
            src, attr = mod.imports[name]
            return self.resolve_import(mod, src, attr, name)
        return _MISSING

    def eval_const(self, node):
        if isinstance(node, ast.Constant):
            v = node.value
            if isinstance(v, float):
                return V.norm_num(v)
            return v
        if isinstance(node, ast.UnaryOp) and isinstance(node.op, ast.USub):
            return -self.eval_const(node.operand)
        if isinstance(node, ast.Tuple):
            return tuple(self.eval_const(e) for e in node.elts)
        raise Unsupported("non-constant module global")

    def resolve_import(self, mod, src, attr, local):
        if src == "module":
            base = attr.split(".")[0]
            if base in self.builtins.get("__modules__", {}):
                return self.builtins["__modules__"][base]
            return ModuleV(base)
        mods = self.builtins.get("__modules__", {})
        if src.startswith("speckit.") and os.path.exists(os.path.join(self.repo, src.replace(".", "/") + ".py")):
            src = "." + src.split(".", 1)[1]
            mod = self.module("speckit/__init__.py") if os.path.exists(os.path.join(self.repo, "speckit/__init__.py")) else mod
        if src.startswith("."):
            rel = os.path.join(os.path.dirname(mod.relname), src.lstrip(".").replace(".", "/") + ".py")
            if os.path.exists(os.path.join(self.repo, rel)):
                m2 = self.module(rel)
                if attr in m2.functions:
                    return Closure(m2.functions[attr], None, module=m2, name=attr)
                if attr in m2.constants or attr in m2.imports or attr in m2.classes:
                    r = self.module_global(None, m2, attr)
                    if r is not _MISSING:
                        return r
            return Opaque(f"{src}.{attr}")
        key = f"{src}.{attr}"
        if key in self.builtins:
            return self.builtins[key]
        if src in mods and attr in mods[src].attrs:
            return mods[src].attrs[attr]
        top = src.split(".")[0]
        if top in mods:
            m = mods[top]
            for part in src.split(".")[1:] + [attr]:
                if isinstance(m, ModuleV) and part in m.attrs:
                    m = m.attrs[part]
                else:
                    m = None
                    break
            if m is not None:
                return m
        return Opaque(key)

    def set_ghost(self, name, val, st=None):
        """path-local ghost variable (visible to contract clauses evaluated on this path)"""
        st = st if st is not None and not isinstance(st, CurState) else self.cur_state
        st.tags.setdefault("ghosts", {})[name] = val

    def find_method(self, cls, attr, depth=0):
        for rel, mod in list(self.modules.items()):
            if f"{cls}.{attr}" in mod.functions:
                return mod.functions[f"{cls}.{attr}"], mod
        # base classes
        for rel, mod in list(self.modules.items()):
            cn = mod.classes.get(cls)
            if cn is not None and depth < 4:
                for b in cn.bases:
                    if isinstance(b, ast.Name):
                        r = self.find_method(b.id, attr, depth + 1)
                        if r[0] is not None:
                            return r
        return None, None

    def setvar(self, state, fid, name, val):
        state.frames[fid]["vars"][name] = val

    # ------------------------------------------------------------------- heap
    def alloc(self, state, obj):
        loc = new_loc()
        state.heap[loc] = obj
        return Ref(loc)

    def deref(self, state, v):
        if isinstance(v, Ref):
            return state.heap[v.loc]
        return v

    # ------------------------------------------------------------- statements
    def exec_block(self, stmts, state, fid):
        """returns list of (state, outcome)"""
        results = []
        work = [(state, 0)]
        while work:
            st, i = work.pop()
            if i >= len(stmts):
                results.append((st, NORMAL))
                continue
            outs = self.exec_stmt(stmts[i], st, fid)
            for s2, oc in outs:
                if oc.kind == "normal":
                    work.append((s2, i + 1))
                else:
                    results.append((s2, oc))
        return results

    def exec_stmt(self, node, state, fid):
        m = getattr(self, "st_" + type(node).__name__, None)
        if m is None:
            raise Unsupported(f"statement {type(node).__name__} at line {node.lineno}")
        self.cur_line = getattr(node, "lineno", 0)
        self.cur_state = state
        cuts = getattr(self, "cuts", None)
        if cuts:
            chit = cuts.get(id(node))
            if chit is not None:
                # block contract inside a loop body: assert the clauses, forget the listed
                # variables (fresh symbols), assume the clauses about the fresh values
                from .loops import eval_clauses, norm_clauses, havoc_value

                clabel, clauses, hv = chit[:3]
                hv_int = chit[3] if len(chit) > 3 else []
                self.cuts_hit.add(clabel)
                outs = m(node, state, fid)
                for s2, oc in outs:
                    if oc.kind != "normal":
                        continue
                    self.cur_state = s2
                    for label, val in eval_clauses(self, s2, fid, norm_clauses(clauses)):
                        self.oblige(s2, "lemma", f"cut.{clabel}.{label}", val)
                    fr = s2.frames[fid]["vars"]
                    for nm in hv_int:
                        # a float array proved integer-valued is forgotten as to_real of a fresh int array
                        from .contract import eval_text as _et

                        tgt = self.deref(s2, fr[nm])
                        self.oblige(s2, "lemma", f"cut.{clabel}.integer_valued[{nm}]", self.truthy(s2, _et(self, s2, fid, f"forall(0, len({nm}), lambda g_: {nm}[g_] == floor({nm}[g_]))")))
                        ia = self.fresh_array(nm + "_int", tgt.shape, "int")
                        fr[nm] = self.alloc(s2, ArrV(tgt.shape, lambda ix, ia=ia: V.to_real(ia.fn(ix)), "real"))
                    for nm in hv:
                        cur = fr[nm]
                        tgt = self.deref(s2, cur)
                        if isinstance(cur, Ref) and isinstance(tgt, ArrV):
                            fr[nm] = self.alloc(s2, self.fresh_array(nm, tgt.shape, tgt.dtype))
                        else:
                            fr[nm] = havoc_value(self, s2, nm, cur)
                    for label, val in eval_clauses(self, s2, fid, norm_clauses(clauses)):
                        s2.assume(val)
                return outs
        probes = getattr(self, "probes", None)
        if probes:
            try:
                txt = ast.unparse(node)
            except Exception:
                txt = None
            hit = probes.get(txt)
            if hit is not None:
                outs = m(node, state, fid)
                label, names = hit
                self.probes_hit.add(label)
                for s2, oc in outs:
                    if oc.kind == "normal":
                        fr = s2.frames[fid]["vars"]
                        for nm in names:
                            if nm in fr:
                                fr[f"{nm}_at_{label}"] = fr[nm]
                return outs
        return m(node, state, fid)

    def st_Pass(self, node, state, fid):
        return [(state, NORMAL)]

    def st_Expr(self, node, state, fid):
        if isinstance(node.value, ast.Constant):
            return [(state, NORMAL)]  # docstring
        if self._is_logging(node.value):
            return [(state, NORMAL)]
        outs = []
        for s2, v in self.eval_fork(node.value, state, fid):
            if isinstance(v, _Raised):
                outs.append((s2, Outcome("raise", v.exc)))
            else:
                outs.append((s2, NORMAL))
        return outs

    def _is_logging(self, call):
        if not isinstance(call, ast.Call):
            return False
        f = call.func
        if isinstance(f, ast.Attribute) and isinstance(f.value, ast.Name) and f.value.id in ("logging", "logger", "warnings"):
            return True
        if isinstance(f, ast.Name) and f.id == "print":
            return True
        return False

    def st_Import(self, node, state, fid):
        for a in node.names:
            base = a.name.split(".")[0]
            mods = self.builtins.get("__modules__", {})
            self.setvar(state, fid, a.asname or base, mods.get(base, ModuleV(base)))
        return [(state, NORMAL)]

    def st_ImportFrom(self, node, state, fid):
        raise Unsupported("from-import inside function")

    def st_FunctionDef(self, node, state, fid):
        self.setvar(state, fid, node.name, Closure(node, fid, name=node.name))
        return [(state, NORMAL)]

    def st_Assert(self, node, state, fid):
        outs = []
        for s2, v in self.eval_fork(node.test, state, fid):
            c = self.truthy(s2, v)
            self.oblige(s2, "safe", f"assert@{node.lineno}", c)
            outs.append((s2, NORMAL))
        return outs

    def st_Return(self, node, state, fid):
        if node.value is None:
            return [(state, Outcome("return", None))]
        outs = []
        for s2, v in self.eval_fork(node.value, state, fid):
            if isinstance(v, _Raised):
                outs.append((s2, Outcome("raise", v.exc)))
            else:
                outs.append((s2, Outcome("return", v)))
        return outs

    def st_Raise(self, node, state, fid):
        cls = "Exception"
        if node.exc is not None:
            e = node.exc
            if isinstance(e, ast.Call):
                e = e.func
            if isinstance(e, ast.Name):
                cls = e.id
            elif isinstance(e, ast.Attribute):
                cls = e.attr
        return [(state, Outcome("raise", ExcV(cls, (node.lineno,))))]

    def st_Break(self, node, state, fid):
        return [(state, Outcome("break"))]

    def st_Continue(self, node, state, fid):
        return [(state, Outcome("continue"))]

    def st_With(self, node, state, fid):
        # np.errstate(...) and similar context managers without semantic effect
        for item in node.items:
            ce = item.context_expr
            ok = isinstance(ce, ast.Call) and isinstance(ce.func, ast.Attribute) and ce.func.attr in ("errstate",)
            if not ok:
                raise Unsupported(f"with-statement at line {node.lineno}")
        return self.exec_block(node.body, state, fid)

    def st_Try(self, node, state, fid):
        """try / except: a raise outcome of the body whose class a handler names continues in that handler"""
        if node.finalbody:
            raise Unsupported(f"try/finally at line {node.lineno}")

        def names_of(t):
            if t is None:
                return None  # bare except
            if isinstance(t, ast.Tuple):
                out = set()
                for e in t.elts:
                    out |= names_of(e) or set()
                return out
            if isinstance(t, ast.Name):
                return {t.id}
            if isinstance(t, ast.Attribute):
                return {t.attr}
            raise Unsupported(f"exception class expression at line {node.lineno}")

        outs = []
        for s2, oc in self.exec_block(node.body, state, fid):
            if oc.kind == "raise":
                handled = False
                for h in node.handlers:
                    nm = names_of(h.type)
                    if nm is None or oc.value.cls in nm or "Exception" in nm or "BaseException" in nm:
                        if h.name:
                            self.setvar(s2, fid, h.name, Opaque(f"exc:{oc.value.cls}"))
                        outs.extend(self.exec_block(h.body, s2, fid))
                        handled = True
                        break
                if not handled:
                    outs.append((s2, oc))
            elif oc.kind == "normal" and node.orelse:
                outs.extend(self.exec_block(node.orelse, s2, fid))
            else:
                outs.append((s2, oc))
        return outs

    def st_AnnAssign(self, node, state, fid):
        if node.value is None:
            return [(state, NORMAL)]
        fake = ast.Assign(targets=[node.target], value=node.value)
        ast.copy_location(fake, node)
        return self.st_Assign(fake, state, fid)

    def st_Assign(self, node, state, fid):
        outs = []
        for s2, v in self.eval_fork(node.value, state, fid):
            if isinstance(v, _Raised):
                outs.append((s2, Outcome("raise", v.exc)))
                continue
            for tgt in node.targets:
                self.assign(tgt, v, s2, fid)
            outs.append((s2, NORMAL))
        return outs

    def st_AugAssign(self, node, state, fid):
        outs = []
        tgt = node.target
        load = _as_load(tgt)
        binop = ast.BinOp(left=load, op=node.op, right=node.value)
        ast.copy_location(binop, node)
        ast.fix_missing_locations(binop)
        for s2, v in self.eval_fork(binop, state, fid):
            if isinstance(v, _Raised):
                outs.append((s2, Outcome("raise", v.exc)))
                continue
            if isinstance(tgt, ast.Name):
                cur = self.lookup(s2, fid, tgt.id)
                if isinstance(cur, Ref) and isinstance(s2.heap[cur.loc], ArrV):
                    # in-place NumPy operation: the buffer is written
                    newv = self.deref(s2, v)
                    self.frame_write(s2, cur, f"augassign@{node.lineno}")
                    newv2 = ArrV(newv.shape, newv.fn, s2.heap[cur.loc].dtype if s2.heap[cur.loc].dtype != "int" else newv.dtype, bufs=s2.heap[cur.loc].bufs)
                    s2.heap[cur.loc] = newv2
                    outs.append((s2, NORMAL))
                    continue
            self.assign(tgt, v, s2, fid)
            outs.append((s2, NORMAL))
        return outs

    def frame_write(self, state, ref, label):
        """hook: an in-place write to a buffer; checked against the declared frame"""
        chk = getattr(self, "frame_checker", None)
        if chk:
            chk(self, state, ref, label)

    # -------------------------------------------------------------- assignment
    def assign(self, tgt, v, state, fid):
        if isinstance(tgt, ast.Name):
            self.setvar(state, fid, tgt.id, v)
            return
        if isinstance(tgt, (ast.Tuple, ast.List)):
            vals = self.unpack(state, v, len(tgt.elts))
            for t, x in zip(tgt.elts, vals):
                self.assign(t, x, state, fid)
            return
        if isinstance(tgt, ast.Subscript):
            base = self.eval1(tgt.value, state, fid)
            idx = self.eval_index(tgt.slice, state, fid)
            self.store_subscript(state, base, idx, v, tgt)
            return
        if isinstance(tgt, ast.Attribute):
            base = self.eval1(tgt.value, state, fid)
            if isinstance(base, Ref) and isinstance(state.heap[base.loc], ObjV):
                o = state.heap[base.loc]
                hook = getattr(self, "attr_write_hook", None)
                if hook:
                    hook(self, state, base, tgt.attr, v)
                f = dict(o.fields)
                f[tgt.attr] = v
                state.heap[base.loc] = ObjV(o.cls, f)
                return
            raise Unsupported(f"attribute store on {base!r}")
        raise Unsupported(f"assignment target {type(tgt).__name__}")

    def unpack(self, state, v, n):
        v = self.deref(state, v)
        if isinstance(v, tuple):
            if len(v) != n:
                raise Unsupported("tuple unpack length mismatch")
            return list(v)
        if isinstance(v, ListV) and v.concrete():
            if len(v.items) != n:
                raise Unsupported("list unpack length mismatch")
            return list(v.items)
        if isinstance(v, ArrV):
            if len(v.shape) == 1:
                return [v.at(i) for i in range(n)]
            return [self.np_index(state, v, (i,)) for i in range(n)]
        raise Unsupported(f"unpack {v!r}")

    def store_subscript(self, state, base, idx, v, node):
        if not isinstance(base, Ref):
            raise Unsupported("store into non-reference value")
        obj = state.heap[base.loc]
        if isinstance(obj, DictV):
            self._last_raw_key = idx
            key = self.dict_key(idx)
            d = dict(obj.d)
            d[key] = v
            hook = getattr(self, "dict_write_hook", None)
            if hook:
                hook(self, state, base, key, v)
            state.heap[base.loc] = DictV(d)
            return
        if isinstance(obj, ListV):
            i = idx
            self.check_index(state, i, obj.n, f"list-store@{node.lineno}")
            state.heap[base.loc] = obj.set(i, v)
            return
        if isinstance(obj, ArrV):
            self.frame_write(state, base, f"store@{node.lineno}")
            state.heap[base.loc] = self.np_store(state, obj, idx, v, node)
            return
        raise Unsupported(f"subscript store into {obj!r}")

    def dict_key(self, k):
        if isinstance(k, (str, int, bool)) or k is None:
            return k
        if isinstance(k, tuple) and all(isinstance(x, (str, int)) for x in k):
            return k
        if isinstance(k, tuple):
            return ("symkey",) + tuple(str(V.term(x)) if V.is_scalar(x) else repr(x) for x in k)
        if isinstance(k, Sym):
            return ("symkey", str(k.t))
        raise Unsupported(f"dict key {k!r}")

    def check_index(self, state, i, n, label, allow_negative=False):
        if state.ghost:
            return
        if isinstance(i, int) and isinstance(n, int):
            if 0 <= i < n or (allow_negative and -n <= i < n):
                return
        g = V.b_and(V.cmp("<=", 0, i), V.cmp("<", i, n))
        self.oblige(state, "safe", f"index:{label}", g)

    # ------------------------------------------------------------ control flow
    def truthy(self, state, v):
        v = self.deref(state, v)
        if isinstance(v, (bool,)):
            return v
        if isinstance(v, Sym):
            if v.kind == "bool":
                return v
            return V.cmp("!=", v, 0)
        if V.is_concrete_num(v):
            return v != 0
        if isinstance(v, Cx):
            return V.b_or(self.truthy(state, v.re), self.truthy(state, v.im))
        if v is None:
            return False
        if isinstance(v, str):
            return bool(v)
        if isinstance(v, StrV):
            return True
        if isinstance(v, tuple):
            return len(v) > 0
        if isinstance(v, ListV):
            return V.cmp(">", v.n, 0)
        if isinstance(v, DictV):
            return len(v.d) > 0
        if isinstance(v, ArrV):
            # truth value of a one-element array
            if all(isinstance(d, int) for d in v.shape):
                tot = 1
                for d in v.shape:
                    tot *= d
                if tot == 1:
                    return self.truthy(state, v.fn(tuple(0 for _ in v.shape)))
            raise Unsupported("truth value of an array")
        if isinstance(v, (Opaque, Closure, Builtin, ObjV, ModuleV)):
            return True
        raise Unsupported(f"truthiness of {v!r}")

    def st_If(self, node, state, fid):
        outs = []
        for s1, tv in self.eval_fork(node.test, state, fid):
            if isinstance(tv, _Raised):
                outs.append((s1, Outcome("raise", tv.exc)))
                continue
            c = self.truthy(s1, tv)
            if isinstance(c, bool):
                outs.extend(self.exec_block(node.body if c else node.orelse, s1, fid))
                continue
            sa = s1.copy()
            sa.assume(c)
            sb = s1
            sb.assume(V.b_not(c))
            fa_, fb_ = self.feasible(sa), self.feasible(sb)
            ra = self.exec_block(node.body, sa, fid) if fa_ else []
            rb = self.exec_block(node.orelse, sb, fid) if fb_ else []
            for ok_, blk in ((fa_, node.body), (fb_, node.orelse)):
                if not ok_ and not state.ghost:
                    # a pruned branch that raises directly: the unreachability proof is an obligation of its own
                    for stn in blk:
                        if isinstance(stn, ast.Raise):
                            ex_ = stn.exc.func if isinstance(stn.exc, ast.Call) else stn.exc
                            cls_ = ex_.id if isinstance(ex_, ast.Name) else getattr(ex_, "attr", "Exception")
                            self.add_decided_once("safe", f"no_raise:{cls_}", "unsat", "z3 (path condition of the raising branch is unsatisfiable)", meta={"line": stn.lineno})
            merged = self.try_merge(c, ra, rb, len(s1.pc) - 1)
            outs.extend(merged)
        self.npaths += len(outs)
        if self.npaths > self.max_paths * 50:
            raise PathLimit()
        return outs

    def try_merge(self, c, ra, rb, npc):
        """merge the normal outcomes of the two branches when their states differ
        only in mergeable values; other outcomes are kept as separate paths"""
        if not getattr(self, "merge_paths", True):
            return ra + rb
        na = [(s, o) for s, o in ra if o.kind == "normal"]
        nb = [(s, o) for s, o in rb if o.kind == "normal"]
        others = [(s, o) for s, o in ra + rb if o.kind != "normal"]
        if len(na) == 1 and len(nb) == 1:
            m = self.merge_states(c, na[0][0], nb[0][0], npc)
            if m is not None:
                return others + [(m, NORMAL)]
        return ra + rb

    def merge_states(self, c, sa, sb, npc):
        m = sa.copy()
        for fid_, fb_ in sb.frames.items():
            if fid_ not in m.frames:
                m.frames[fid_] = {"vars": dict(fb_["vars"]), "parent": fb_["parent"], "module": fb_["module"]}
        try:
            for fid, fa in sa.frames.items():
                if fid not in sb.frames:
                    continue
                fb = sb.frames[fid]
                keys = set(fa["vars"]) | set(fb["vars"])
                for k in keys:
                    if k not in fa["vars"] or k not in fb["vars"]:
                        # defined on one side only: keep (use is guarded by the program)
                        m.frames[fid]["vars"][k] = fa["vars"].get(k, fb["vars"].get(k))
                        continue
                    va, vb = fa["vars"][k], fb["vars"][k]
                    if va is vb:
                        continue
                    m.frames[fid]["vars"][k] = self.merge_val(c, va, vb)
            for loc in set(sa.heap) | set(sb.heap):
                if loc not in sa.heap or loc not in sb.heap:
                    m.heap[loc] = sa.heap.get(loc, sb.heap.get(loc))
                    continue
                oa, ob = sa.heap[loc], sb.heap[loc]
                if oa is ob:
                    continue
                m.heap[loc] = self.merge_obj(c, oa, ob)
        except _NoMerge:
            return None
        common = sa.pc[:npc]
        ea = sa.pc[npc + 1 :]
        eb = sb.pc[npc + 1 :]
        ct = V.bool_term(c)
        m.pc = list(common)
        if ea:
            m.pc.append(z3.Implies(ct, z3.And(*ea)))
        if eb:
            m.pc.append(z3.Implies(z3.Not(ct), z3.And(*eb)))
        seen = set(id(f) for f in sa.facts)
        m.facts = list(sa.facts) + [f for f in sb.facts if id(f) not in seen]
        return m

    def merge_val(self, c, va, vb):
        if va is vb:
            return va
        if V.is_scalar(va) and V.is_scalar(vb) or isinstance(va, Cx) or isinstance(vb, Cx):
            if (isinstance(va, (int, Fraction, bool)) and isinstance(vb, (int, Fraction, bool))) and va == vb and type(va) == type(vb):
                return va
            try:
                return V.ite(c, va, vb)
            except Unsupported:
                raise _NoMerge()
        if isinstance(va, Ref) and isinstance(vb, Ref) and va.loc == vb.loc:
            return va
        if isinstance(va, tuple) and isinstance(vb, tuple) and len(va) == len(vb):
            return tuple(self.merge_val(c, x, y) for x, y in zip(va, vb))
        if isinstance(va, str) and isinstance(vb, str) and va == vb:
            return va
        if va is None and vb is None:
            return None
        if isinstance(va, (ListV, ArrV)) and isinstance(vb, type(va)):
            try:
                return _ite_any(c, va, vb)
            except Unsupported:
                raise _NoMerge()
        if isinstance(va, (Opaque, Closure, Builtin, ModuleV)) and va is vb:
            return va
        raise _NoMerge()

    def merge_obj(self, c, oa, ob):
        if isinstance(oa, DictV) and isinstance(ob, DictV) and set(oa.d) == set(ob.d):
            return DictV({k: self.merge_val(c, oa.d[k], ob.d[k]) for k in oa.d})
        if isinstance(oa, ObjV) and isinstance(ob, ObjV) and set(oa.fields) == set(ob.fields):
            return ObjV(oa.cls, {k: self.merge_val(c, oa.fields[k], ob.fields[k]) for k in oa.fields})
        if isinstance(oa, (ListV, ArrV)) and isinstance(ob, type(oa)):
            try:
                return _ite_any(c, oa, ob)
            except Unsupported:
                raise _NoMerge()
        raise _NoMerge()

    # ------------------------------------------------------------------- loops
    def loop_spec(self, node):
        return self.loop_specs.get(self.loop_ord.get(id(node)))

    def st_While(self, node, state, fid):
        spec = self.loop_spec(node)
        if spec is None:
            return self.unroll_while(node, state, fid)
        return self.cut_loop(node, state, fid, spec, kind="while")

    def unroll_while(self, node, state, fid, limit=64):
        outs = []
        work = [(state, 0)]
        while work:
            st, n = work.pop()
            for s1, tv in self.eval_fork(node.test, st, fid):
                c = self.truthy(s1, tv)
                if isinstance(c, bool):
                    branches = [(s1, c)]
                else:
                    sa = s1.copy()
                    sa.assume(c)
                    s1.assume(V.b_not(c))
                    branches = [(sa, True), (s1, False)]
                for sb, go in branches:
                    if not isinstance(c, bool) and not self.feasible(sb):
                        continue
                    if not go:
                        outs.append((sb, NORMAL))
                        continue
                    if n >= limit:
                        raise Unsupported(f"while loop at line {node.lineno} needs an invariant (not bounded by unrolling)")
                    for s2, oc in self.exec_block(node.body, sb, fid):
                        if oc.kind in ("normal", "continue"):
                            work.append((s2, n + 1))
                        elif oc.kind == "break":
                            outs.append((s2, NORMAL))
                        else:
                            outs.append((s2, oc))
        return outs

    def st_For(self, node, state, fid):
        spec = self.loop_spec(node)
        outs = []
        for s1, itv in self.eval_fork(node.iter, state, fid):
            itv_d = self.deref(s1, itv)
            seq = self.concrete_iter(s1, itv_d)
            if seq is not None and spec is None:
                outs.extend(self.unroll_for(node, s1, fid, seq))
                continue
            if spec is None:
                raise Unsupported(f"for loop at line {node.lineno} has a symbolic trip count and no invariant")
            outs.extend(self.cut_loop(node, s1, fid, spec, kind="for", iterv=itv_d))
        return outs

    def concrete_iter(self, state, itv):
        if isinstance(itv, _RangeV):
            if all(isinstance(x, int) for x in (itv.lo, itv.hi, itv.step)):
                return list(range(itv.lo, itv.hi, itv.step))
            return None
        if isinstance(itv, tuple):
            return list(itv)
        if isinstance(itv, ListV) and itv.concrete():
            return list(itv.items)
        if isinstance(itv, DictV):
            return list(itv.d.keys())
        if isinstance(itv, ArrV) and all(isinstance(d, int) for d in itv.shape):
            if len(itv.shape) == 1:
                return [itv.at(i) for i in range(itv.shape[0])]
            return [self.np_index(state, itv, (i,)) for i in range(itv.shape[0])]
        if isinstance(itv, _ZipV):
            seqs = [self.concrete_iter(state, self.deref(state, x)) for x in itv.parts]
            if any(s is None for s in seqs):
                return None
            return [tuple(t) for t in zip(*seqs)]
        if isinstance(itv, _EnumV):
            s = self.concrete_iter(state, self.deref(state, itv.inner))
            if s is None:
                return None
            return [(i + itv.start, x) for i, x in enumerate(s)]
        return None

    def unroll_for(self, node, state, fid, seq):
        outs = []
        work = [(state, 0)]
        if len(seq) > 600:
            raise Unsupported(f"for loop at line {node.lineno}: {len(seq)} iterations to unroll")
        while work:
            st, k = work.pop()
            if k >= len(seq):
                outs.extend(self.exec_block(node.orelse, st, fid) if node.orelse else [(st, NORMAL)])
                continue
            self.assign(node.target, seq[k], st, fid)
            for s2, oc in self.exec_block(node.body, st, fid):
                if oc.kind in ("normal", "continue"):
                    work.append((s2, k + 1))
                elif oc.kind == "break":
                    outs.append((s2, NORMAL))
                else:
                    outs.append((s2, oc))
        return outs

    # cut-point treatment of a loop with an invariant -------------------------
    def cut_loop(self, node, state, fid, spec, kind, iterv=None):
        from .loops import cut_loop

        return cut_loop(self, node, state, fid, spec, kind, iterv)

    # ------------------------------------------------------------- expressions
    def eval1(self, node, state, fid):
        """evaluate an expression that must not fork or raise"""
        r = self.eval_fork(node, state, fid)
        if len(r) != 1:
            raise Unsupported(f"expression forks at line {getattr(node, 'lineno', '?')}")
        s2, v = r[0]
        if s2 is not state:
            raise VerifError("eval1: state identity changed")
        if isinstance(v, _Raised):
            raise Unsupported(f"expression raises {v.exc} at line {getattr(node, 'lineno', '?')}")
        return v

    def eval_fork(self, node, state, fid):
        """evaluate; returns [(state, value)].  Forks only at calls to user
        functions whose bodies fork (several return paths)."""
        m = getattr(self, "ex_" + type(node).__name__, None)
        if m is None:
            raise Unsupported(f"expression {type(node).__name__} at line {getattr(node, 'lineno', '?')}")
        if isinstance(state, CurState):
            state = self.cur_state
        self.cur_state = state
        return m(node, state, fid)

    def _seq(self, nodes, state, fid, k):
        """evaluate nodes left-to-right, then call k(state, values) -> [(state, value)]"""

        def go(i, st, acc):
            if i == len(nodes):
                self.cur_state = st
                return k(st, acc)
            out = []
            for s2, v in self.eval_fork(nodes[i], st, fid):
                if isinstance(v, _Raised):
                    out.append((s2, v))
                else:
                    out.extend(go(i + 1, s2, acc + [v]))
            return out

        return go(0, state, [])

    def ex_Constant(self, node, state, fid):
        v = node.value
        if isinstance(v, float):
            v = V.norm_num(v)
        elif isinstance(v, complex):
            v = Cx(V.norm_num(v.real), V.norm_num(v.imag))
        return [(state, v)]

    def ex_Name(self, node, state, fid):
        return [(state, self.lookup(state, fid, node.id))]

    def ex_JoinedStr(self, node, state, fid):
        # f-strings with only constant/concrete parts are kept concrete (dict keys)
        parts = []
        for p in node.values:
            if isinstance(p, ast.Constant):
                parts.append(str(p.value))
            elif isinstance(p, ast.FormattedValue) and p.format_spec is None and p.conversion == -1:
                try:
                    v = self.eval1(p.value, state, fid)
                except Unsupported:
                    return [(state, StrV())]
                if isinstance(v, (int, str)) and not isinstance(v, bool):
                    parts.append(str(v))
                else:
                    return [(state, StrV())]
            else:
                return [(state, StrV())]
        return [(state, "".join(parts))]

    def ex_Tuple(self, node, state, fid):
        return self._seq(node.elts, state, fid, lambda st, vs: [(st, tuple(vs))])

    def ex_List(self, node, state, fid):
        return self._seq(node.elts, state, fid, lambda st, vs: [(st, self.alloc(st, ListV(items=vs)))])

    def ex_Dict(self, node, state, fid):
        def k(st, vs):
            d = {}
            n = len(node.keys)
            it = iter(vs)
            for kn in node.keys:
                if kn is None:  # **mapping
                    mv = self.deref(st, next(it))
                    if not isinstance(mv, DictV):
                        raise Unsupported("** of non-dict")
                    d.update(mv.d)
                else:
                    kv = next(it)
                    vv = next(it)
                    d[self.dict_key(kv)] = vv
            return [(st, self.alloc(st, DictV(d)))]

        nodes = []
        for kn, vn in zip(node.keys, node.values):
            if kn is None:
                nodes.append(vn)
            else:
                nodes.extend([kn, vn])
        return self._seq(nodes, state, fid, k)

    def ex_Lambda(self, node, state, fid):
        return [(state, Closure(node, fid, name="<lambda>", ghost=bool(state.ghost)))]

    def ex_IfExp(self, node, state, fid):
        outs = []
        for s1, tv in self.eval_fork(node.test, state, fid):
            c = self.truthy(s1, tv)
            if isinstance(c, bool):
                outs.extend(self.eval_fork(node.body if c else node.orelse, s1, fid))
                continue
            # evaluate both sides under their guards; merge scalars with ite
            sa = s1.copy()
            sa.assume(c)
            sb = s1.copy()
            sb.assume(V.b_not(c))
            ra = self.eval_fork(node.body, sa, fid)
            rb = self.eval_fork(node.orelse, sb, fid)
            if len(ra) == 1 and len(rb) == 1 and not isinstance(ra[0][1], _Raised) and not isinstance(rb[0][1], _Raised):
                try:
                    val = self.merge_val(c, ra[0][1], rb[0][1])
                    m = self.merge_states(c, ra[0][0], rb[0][0], len(s1.pc))
                    if m is not None:
                        # keep identity of the incoming state object
                        s1.frames, s1.heap, s1.pc, s1.facts = m.frames, m.heap, m.pc, m.facts
                        outs.append((s1, val))
                        continue
                except _NoMerge:
                    pass
            outs.extend(ra + rb)
        return outs

    def ex_BoolOp(self, node, state, fid):
        is_and = isinstance(node.op, ast.And)

        def go(i, st, acc):
            if i == len(node.values):
                return [(st, self._boolop_result(st, acc, is_and))]
            out = []
            # short-circuit: later operands are evaluated under the guard that the
            # earlier ones did not decide the result (matters for safety obligations)
            guard = None
            if acc:
                cs = [self.truthy(st, a) for a in acc]
                if is_and:
                    if any(c is False for c in cs):
                        return [(st, self._boolop_result(st, acc, is_and))]
                    guard = V.b_and(*cs)
                else:
                    if any(c is True for c in cs):
                        return [(st, self._boolop_result(st, acc, is_and))]
                    guard = V.b_and(*[V.b_not(c) for c in cs])
            if guard is not None and not isinstance(guard, bool):
                st.pc.append(V.bool_term(guard))
                mark = len(st.pc) - 1
            else:
                mark = None
            for s2, v in self.eval_fork(node.values[i], st, fid):
                if mark is not None and s2 is st:
                    # remove the temporary guard, keep anything assumed after it conditional
                    extra = s2.pc[mark + 1 :]
                    del s2.pc[mark:]
                    for e in extra:
                        s2.pc.append(z3.Implies(V.bool_term(guard), e))
                if isinstance(v, _Raised):
                    out.append((s2, v))
                else:
                    out.extend(go(i + 1, s2, acc + [v]))
            return out

        return go(0, state, [])

    def _boolop_result(self, st, vals, is_and):
        # Python returns one of the operands; for boolean operands this is and/or
        if all(V.is_boollike(self.deref(st, v)) or isinstance(v, Sym) for v in vals):
            cs = [self.truthy(st, v) for v in vals]
            return V.b_and(*cs) if is_and else V.b_or(*cs)
        # general: select operand by truthiness (concrete decisions only)
        for v in vals[:-1]:
            c = self.truthy(st, v)
            if not isinstance(c, bool):
                cs = [self.truthy(st, x) for x in vals]
                return V.b_and(*cs) if is_and else V.b_or(*cs)
            if is_and and not c:
                return v
            if (not is_and) and c:
                return v
        return vals[-1]

    def ex_UnaryOp(self, node, state, fid):
        def k(st, vs):
            (a,) = vs
            return [(st, self.unop(st, node.op, a))]

        return self._seq([node.operand], state, fid, k)

    def unop(self, st, op, a):
        a = self.deref(st, a)
        if isinstance(a, ArrV):
            return self.np_map(st, lambda x: self.unop(self.pst, op, x), a)
        if isinstance(op, ast.USub):
            if isinstance(a, Opaque) and a.name in ("inf", "-inf"):
                return Opaque("-inf" if a.name == "inf" else "inf")
            return V.neg(a)
        if isinstance(op, ast.UAdd):
            return a
        if isinstance(op, ast.Not):
            return V.b_not(self.truthy(st, a))
        if isinstance(op, ast.Invert):
            if V.is_boollike(a):
                return V.b_not(a)
        raise Unsupported(f"unary {type(op).__name__}")

    def ex_BinOp(self, node, state, fid):
        def k(st, vs):
            a, b = vs
            return [(st, self.binop(st, node.op, a, b, node))]

        return self._seq([node.left, node.right], state, fid, k)

    def binop(self, st, op, a, b, node=None):
        a = self.deref(st, a)
        b = self.deref(st, b)
        line = getattr(node, "lineno", 0)
        if isinstance(a, ArrV) or isinstance(b, ArrV):
            if isinstance(op, ast.MatMult):
                return self.np_matmul(st, a, b)
            return self.np_zip(st, lambda x, y: self.binop(self.pst, op, x, y, node), a, b)
        if isinstance(a, float):
            a = V.norm_num(a)
        if isinstance(b, float):
            b = V.norm_num(b)
        if isinstance(op, ast.Add):
            if isinstance(a, (str, StrV)) or isinstance(b, (str, StrV)):
                if isinstance(a, str) and isinstance(b, str):
                    return a + b
                return StrV()
            if isinstance(a, tuple) and isinstance(b, tuple):
                return a + b
            if isinstance(a, ListV) and isinstance(b, ListV) and a.concrete() and b.concrete():
                return self.alloc(st, ListV(items=a.items + b.items))
            return V.add(a, b)
        if isinstance(op, ast.Sub):
            return V.sub(a, b)
        if isinstance(op, ast.Mult):
            if isinstance(a, ListV) and isinstance(b, int) and a.concrete():
                return self.alloc(st, ListV(items=a.items * b))
            return V.mul(a, b)
        if isinstance(op, ast.Div):
            self.need_nonzero(st, b, f"div@{line}")
            return V.truediv(a, b)
        if isinstance(op, ast.FloorDiv):
            self.need_positive(st, b, f"floordiv@{line}")
            return V.floordiv(a, b)
        if isinstance(op, ast.Mod):
            if isinstance(a, (str, StrV)):
                return StrV()
            self.need_positive(st, b, f"mod@{line}")
            return V.mod(a, b)
        if isinstance(op, ast.Pow):
            return self.power(st, a, b, line)
        if isinstance(op, ast.BitAnd):
            return V.b_and(a, b)
        if isinstance(op, ast.BitOr):
            return V.b_or(a, b)
        raise Unsupported(f"binary operator {type(op).__name__}")

    def need_nonzero(self, st, b, label):
        if st.ghost:
            return
        if isinstance(b, Cx):
            g = V.b_or(V.cmp("!=", b.re, 0), V.cmp("!=", b.im, 0))
        elif V.is_concrete_num(b):
            g = b != 0
        else:
            g = V.cmp("!=", b, 0)
        self.oblige(st, "safe", label, g)

    def need_positive(self, st, b, label):
        if st.ghost:
            return
        if V.is_concrete_num(b):
            if b > 0:
                return
            raise Unsupported("floor division / modulo by a non-positive constant")
        self.oblige(st, "safe", label, V.cmp(">", b, 0))

    def power(self, st, a, b, line=0):
        from .spec import sqrt_of, pow_of

        if isinstance(b, int) and not isinstance(b, bool):
            if b >= 0 and b <= 8:
                r = 1
                for _ in range(b):
                    r = V.mul(r, a)
                if b == 0 and (V.is_reallike(a) or isinstance(a, Cx)):
                    return Fraction(1)
                return r
            if b < 0 and b >= -4:
                self.need_nonzero(st, a, f"pow@{line}")
                r = 1
                for _ in range(-b):
                    r = V.mul(r, a)
                return V.truediv(1, r)
        if V.is_concrete_num(a) and V.is_concrete_num(b) and isinstance(b, Fraction) and b.denominator == 1 and abs(b) <= 64:
            return Fraction(a) ** int(b)
        if isinstance(b, Fraction) and b == Fraction(1, 2):
            return sqrt_of(self, st, a)
        if isinstance(b, Fraction) and b == 2:
            return V.mul(a, a)
        return pow_of(self, st, a, b)

    def ex_Compare(self, node, state, fid):
        def k(st, vs):
            res = []
            for i, op in enumerate(node.ops):
                res.append(self.compare(st, op, vs[i], vs[i + 1]))
            if len(res) == 1:
                return [(st, res[0])]
            return [(st, self.np_all_and(st, res))]

        return self._seq([node.left] + node.comparators, state, fid, k)

    def np_all_and(self, st, res):
        if any(isinstance(self.deref(st, r), ArrV) for r in res):
            out = res[0]
            for r in res[1:]:
                out = self.np_zip(st, V.b_and, self.deref(st, out), self.deref(st, r))
            return out
        return V.b_and(*res)

    def compare(self, st, op, a, b):
        a = self.deref(st, a) if not isinstance(op, (ast.Is, ast.IsNot)) else a
        b = self.deref(st, b) if not isinstance(op, (ast.Is, ast.IsNot)) else b
        if isinstance(op, (ast.Is, ast.IsNot)):
            r = self.identical(st, a, b)
            return r if isinstance(op, ast.Is) else V.b_not(r)
        if isinstance(op, (ast.In, ast.NotIn)):
            r = self.contains(st, b, a)
            return r if isinstance(op, ast.In) else V.b_not(r)
        if isinstance(a, ArrV) or isinstance(b, ArrV):
            return self.np_zip(st, lambda x, y: self.compare(self.pst, op, x, y), a, b, dtype="bool")
        sym = {ast.Eq: "==", ast.NotEq: "!=", ast.Lt: "<", ast.LtE: "<=", ast.Gt: ">", ast.GtE: ">="}[type(op)]
        if a is None or b is None:
            if sym == "==":
                return a is None and b is None
            if sym == "!=":
                return not (a is None and b is None)
            raise Unsupported("ordering with None")
        if isinstance(a, str) or isinstance(b, str):
            if isinstance(a, str) and isinstance(b, str):
                return {"==": a == b, "!=": a != b}.get(sym, None) if sym in ("==", "!=") else _bad()
            if sym == "==":
                return False
            if sym == "!=":
                return True
        if isinstance(a, tuple) and isinstance(b, tuple):
            if sym in ("==", "!="):
                if len(a) != len(b):
                    return sym == "!="
                e = V.b_and(*[self.compare(st, ast.Eq(), x, y) for x, y in zip(a, b)])
                return e if sym == "==" else V.b_not(e)
        if isinstance(a, Opaque) and isinstance(b, Opaque) and sym in ("==", "!=") and (a.name.startswith("dtype:") != b.name.startswith("dtype:")):
            # numpy dtype compared with a Python / numpy scalar type: arr.dtype == object, == np.float64, ...
            dt, ty = (a, b) if a.name.startswith("dtype:") else (b, a)
            kinds = {"class:object": "obj", "object": "obj", "float64": "real", "float": "real", "class:float": "real", "int64": "int", "class:int": "int", "complex128": "cx", "class:complex": "cx", "bool_": "bool", "class:bool": "bool"}
            tk = kinds.get(ty.name) or kinds.get(ty.name.split(".")[-1])
            if tk is not None:
                eq = dt.name == f"dtype:{tk}"
                return eq if sym == "==" else (not eq)
        if isinstance(a, (Opaque, Closure, Builtin)) or isinstance(b, (Opaque, Closure, Builtin)):
            r = self.identical(st, a, b)
            if sym == "==":
                return r
            if sym == "!=":
                return V.b_not(r)
        if isinstance(a, float):
            a = V.norm_num(a)
        if isinstance(b, float):
            b = V.norm_num(b)
        return V.cmp(sym, a, b)

    def identical(self, st, a, b):
        if a is None or b is None:
            if a is None and b is None:
                return True
            other = b if a is None else a
            if isinstance(other, _MaybeNone):
                return other.isnone
            return False
        if isinstance(a, Ref) and isinstance(b, Ref):
            return a.loc == b.loc
        if isinstance(a, Ref) and isinstance(b, (ArrV, ListV, DictV, ObjV)):
            a = st.heap[a.loc]
        if isinstance(b, Ref) and isinstance(a, (ArrV, ListV, DictV, ObjV)):
            b = st.heap[b.loc]
        if isinstance(a, Opaque) and isinstance(b, Opaque):
            return a.name == b.name
        if isinstance(a, Closure) and isinstance(b, Closure):
            return a.node is b.node
        if isinstance(a, Builtin) and isinstance(b, Builtin):
            return a.name == b.name
        if type(a) != type(b):
            return False
        if isinstance(a, (bool, int, str)):
            return a == b
        if isinstance(a, (ArrV, ListV, DictV, ObjV, tuple)):
            return a is b  # by-value snapshots: the very same (unmodified) object
        raise Unsupported(f"identity of {a!r} / {b!r}")

    def contains(self, st, container, x):
        c = self.deref(st, container)
        if isinstance(c, DictV):
            hook = getattr(self, "dict_contains_hook", None)
            if hook:
                r = hook(self, st, container, c, x)
                if r is not None:
                    return r
            return self.dict_key(x) in c.d
        if isinstance(c, (tuple,)) or (isinstance(c, ListV) and c.concrete()):
            items = c if isinstance(c, tuple) else c.items
            rs = []
            for it in items:
                r = self.compare(st, ast.Eq(), x, it)
                if r is True:
                    return True
                rs.append(r)
            return V.b_or(*rs)
        if isinstance(c, str) and isinstance(x, str):
            return x in c
        if isinstance(c, str):
            raise Unsupported("substring test on symbolic string")
        raise Unsupported(f"membership in {c!r}")

    # attribute / subscript ---------------------------------------------------
    def ex_Attribute(self, node, state, fid):
        def k(st, vs):
            (base,) = vs
            return self.getattr_fork(st, base, node.attr, node)

        return self._seq([node.value], state, fid, k)

    def getattr_fork(self, st, base, attr, node=None):
        if isinstance(st, CurState):
            st = self.cur_state
        hook = getattr(self, "getattr_hook", None)
        if hook:
            r = hook(self, st, base, attr)
            if r is not None:
                return r
        return [(st, self.getattr1(st, base, attr))]

    def getattr1(self, st, base, attr):
        from .npmodel import array_attr

        if isinstance(base, ModuleV):
            if attr in base.attrs:
                return base.attrs[attr]
            key = f"{base.name}.{attr}"
            if key in self.builtins:
                return self.builtins[key]
            raise Unsupported(f"module attribute {key}")
        obj = self.deref(st, base)
        if isinstance(obj, ObjV):
            if attr in obj.fields:
                return obj.fields[attr]
            mh = getattr(self, "method_resolver", None)
            if mh:
                r = mh(self, st, base, obj, attr)
                if r is not None:
                    return r
            # methods / properties defined in the class (and its bases) in the repository source
            node, mod = self.find_method(obj.cls, attr)
            if node is not None:
                is_prop = any((isinstance(d, ast.Name) and d.id == "property") for d in node.decorator_list)
                if is_prop:
                    clo = Closure(node, None, module=mod, name=f"{obj.cls}.{attr}")
                    rs = self.call_closure(st, clo, [base], {})
                    if len(rs) != 1 or isinstance(rs[0][1], _Raised):
                        raise Unsupported(f"property {obj.cls}.{attr} forks")
                    return rs[0][1]
                return BoundMethod(base, attr)
            raise Unsupported(f"attribute {attr} of {obj.cls}")
        if isinstance(obj, ArrV):
            return array_attr(self, st, base, obj, attr)
        if isinstance(obj, (ListV, DictV)):
            return BoundMethod(base, attr)
        if isinstance(obj, Cx):
            if attr == "real":
                return obj.re
            if attr == "imag":
                return obj.im
            if attr == "item":
                return BoundMethod(base, attr)
        if V.is_scalar(obj):
            if attr == "real":
                return obj
            if attr == "imag":
                return 0
            if attr == "item":
                return BoundMethod(base, attr)
        if isinstance(obj, Opaque):
            if attr in obj.attrs:
                return obj.attrs[attr]
            return BoundMethod(base, attr)
        if isinstance(obj, str):
            return BoundMethod(base, attr)
        if isinstance(obj, Closure) and attr == "__name__":
            return obj.name
        raise Unsupported(f"attribute {attr} of {obj!r}")

    def ex_Subscript(self, node, state, fid):
        def k(st, vs):
            base = vs[0]
            idx = self.eval_index(node.slice, st, fid)
            return [(st, self.subscript(st, base, idx, node))]

        return self._seq([node.value], state, fid, k)

    def eval_index(self, sl, st, fid):
        if isinstance(sl, ast.Slice):
            lo = self.eval1(sl.lower, st, fid) if sl.lower is not None else None
            hi = self.eval1(sl.upper, st, fid) if sl.upper is not None else None
            step = self.eval1(sl.step, st, fid) if sl.step is not None else None
            return SliceV(lo, hi, step)
        if isinstance(sl, ast.Tuple):
            return tuple(self.eval_index(e, st, fid) for e in sl.elts)
        return self.eval1(sl, st, fid)

    def subscript(self, st, base, idx, node=None):
        obj = self.deref(st, base)
        line = getattr(node, "lineno", 0)
        if isinstance(obj, DictV):
            hook = getattr(self, "dict_get_hook", None)
            if hook:
                r = hook(self, st, base, obj, idx)
                if r is not None:
                    return r
            key = self.dict_key(idx)
            if key not in obj.d:
                raise Unsupported(f"KeyError {key!r} at line {line}")
            return obj.d[key]
        if isinstance(obj, tuple):
            if isinstance(idx, int):
                return obj[idx]
            if isinstance(idx, SliceV) and all(x is None or isinstance(x, int) for x in (idx.lo, idx.hi, idx.step)):
                return obj[slice(idx.lo, idx.hi, idx.step)]
            raise Unsupported("symbolic tuple index")
        if isinstance(obj, ListV):
            if isinstance(idx, SliceV):
                if obj.concrete() and all(x is None or isinstance(x, int) for x in (idx.lo, idx.hi, idx.step)):
                    return self.alloc(st, ListV(items=obj.items[slice(idx.lo, idx.hi, idx.step)]))
                raise Unsupported("symbolic list slice")
            if isinstance(idx, int) and idx < 0 and isinstance(obj.n, int):
                idx = obj.n + idx
            if isinstance(idx, int) and isinstance(obj.n, int) and not (0 <= idx < obj.n):
                if st.ghost:
                    return 0  # value of a spec expression outside its guard: irrelevant
                self.oblige(st, "safe", f"index:list@{line}", False)
                return 0
            if isinstance(idx, int) and idx < 0:
                self.oblige(st, "safe", f"index:list@{line}", V.cmp(">=", obj.n, -idx))
                return obj.get(V.add(obj.n, idx))
            self.check_index(st, idx, obj.n, f"list@{line}")
            return obj.get(idx)
        if isinstance(obj, ArrV):
            return self.np_index(st, obj, idx if isinstance(idx, tuple) else (idx,), line)
        if isinstance(obj, str) and isinstance(idx, int):
            return obj[idx]
        if isinstance(obj, Closure) and obj.module is not None:
            # kernel[blocks, threads] : a configured CUDA launch
            return Opaque(f"{obj.name}[launch]", {"kernel": obj, "launch": idx})
        raise Unsupported(f"subscript of {obj!r}")

    # comprehensions ------------------------------------------------------------
    def ex_ListComp(self, node, state, fid):
        if len(node.generators) != 1:
            raise Unsupported("nested comprehension")
        g = node.generators[0]
        itv = self.deref(state, self.eval1(g.iter, state, fid))
        seq = self.concrete_iter(state, itv)
        if seq is not None:
            items = []
            sub = self.new_frame(state, parent=fid)
            for x in seq:
                self.assign(g.target, x, state, sub)
                ok = True
                for cond in g.ifs:
                    c = self.truthy(state, self.eval1(cond, state, sub))
                    if not isinstance(c, bool):
                        raise Unsupported("symbolic filter in comprehension")
                    ok = ok and c
                if ok:
                    items.append(self.eval1(node.elt, state, sub))
            return [(state, self.alloc(state, ListV(items=items)))]
        # symbolic length: lazy list (pure element expression, no filter)
        if g.ifs:
            from .npmodel import filtered_comprehension

            return [(state, filtered_comprehension(self, state, fid, node, itv))]
        n, getter = self.sym_iter(state, itv)
        snap = state

        def fn(i, node=node, g=g, getter=getter):
            sub = self.new_frame(snap, parent=fid)
            snap.ghost += 1  # element expression is re-evaluated lazily: no obligations here
            try:
                self.assign(g.target, getter(i), snap, sub)
                return self.deref(snap, self.eval1(node.elt, snap, sub))
            finally:
                snap.ghost -= 1
                del snap.frames[sub]

        return [(state, self.alloc(state, ListV(n=n, fn=fn)))]

    def sym_iter(self, state, itv):
        """(length, index->element) of a symbolic-length iterable"""
        if isinstance(itv, _RangeV):
            if itv.step != 1:
                raise Unsupported("symbolic range with step")
            n = V.sub(itv.hi, itv.lo)
            return n, (lambda i: V.add(itv.lo, i))
        if isinstance(itv, ListV):
            return itv.n, itv.get
        if isinstance(itv, ArrV):
            if len(itv.shape) == 1:
                return itv.shape[0], (lambda i: itv.at(i))
            return itv.shape[0], (lambda i: self.np_index(state, itv, (i,)))
        if isinstance(itv, _ZipV):
            parts = [self.sym_iter(state, self.deref(state, p)) for p in itv.parts]
            n = parts[0][0]
            return n, (lambda i: tuple(g(i) for _, g in parts))
        if isinstance(itv, _EnumV):
            n, g = self.sym_iter(state, self.deref(state, itv.inner))
            return n, (lambda i: (V.add(i, itv.start), g(i)))
        raise Unsupported(f"iteration over {itv!r}")

    def ex_GeneratorExp(self, node, state, fid):
        fake = ast.ListComp(elt=node.elt, generators=node.generators)
        ast.copy_location(fake, node)
        return self.ex_ListComp(fake, state, fid)

    # calls ---------------------------------------------------------------------
    def ex_Call(self, node, state, fid):
        if self._is_logging(node):
            return [(state, None)]
        # nested-container mutation  X[i].append(v)  (by-value inner lists)
        f = node.func
        if isinstance(f, ast.Attribute) and f.attr == "append" and isinstance(f.value, ast.Subscript):
            outer = self.eval1(f.value.value, state, fid)
            oobj = self.deref(state, outer)
            if isinstance(oobj, ListV):
                idx = self.eval_index(f.value.slice, state, fid)
                (v,) = [self.eval1(a, state, fid) for a in node.args]
                inner = self.deref(state, oobj.get(idx))
                if isinstance(inner, ListV):
                    self.check_index(state, idx, oobj.n, f"list@{node.lineno}")
                    state.heap[outer.loc] = oobj.set(idx, inner.append(v))
                    return [(state, None)]
        nodes = [node.func] + list(node.args) + [kw.value for kw in node.keywords]

        def k(st, vs):
            fn = vs[0]
            nargs = len(node.args)
            args = []
            for a_node, a in zip(node.args, vs[1 : 1 + nargs]):
                if isinstance(a_node, ast.Starred):
                    args.extend(self.unpack_star(st, a))
                else:
                    args.append(a)
            kwargs = {}
            for kw, v in zip(node.keywords, vs[1 + nargs :]):
                if kw.arg is None:
                    d = self.deref(st, v)
                    if not isinstance(d, DictV):
                        raise Unsupported("** of non-dict")
                    for kk, vv in d.d.items():
                        kwargs[kk] = vv
                else:
                    kwargs[kw.arg] = v
            return self.call(st, fn, args, kwargs, node, fid)

        # Starred nodes: evaluate their inner value
        nodes = [n.value if isinstance(n, ast.Starred) else n for n in nodes]
        return self._seq(nodes, state, fid, k)

    def unpack_star(self, st, a):
        a = self.deref(st, a)
        if isinstance(a, tuple):
            return list(a)
        if isinstance(a, ListV) and a.concrete():
            return list(a.items)
        raise Unsupported("*args of symbolic length")

    def call(self, st, fn, args, kwargs, node=None, fid=None):
        """returns [(state, value|_Raised)]"""
        line = getattr(node, "lineno", 0)
        if isinstance(st, CurState):
            st = self.cur_state
        self.cur_state = st
        if isinstance(fn, Builtin):
            if fn.wants_state:
                r = fn.fn(self, self.pst, *args, **kwargs)
            else:
                r = fn.fn(*args, **kwargs)
            if isinstance(r, _Forked):
                return [((self.cur_state if isinstance(s_, CurState) else s_), v_) for s_, v_ in r.results]
            return [(st, r)]
        if isinstance(fn, BoundMethod):
            from .pymodel import call_method

            r = call_method(self, self.pst, fn, args, kwargs, line)
            if isinstance(r, _Forked):
                return [((self.cur_state if isinstance(s_, CurState) else s_), v_) for s_, v_ in r.results]
            return [(st, r)]
        if isinstance(fn, Closure):
            hook = self.call_hooks.get(fn.name) if fn.module is not None or fn.frame is None else None
            key = f"{fn.module.relname}:{fn.name}" if fn.module is not None else None
            if key is None and fn.frame is not None and not isinstance(fn.node, ast.Lambda):
                # nested def: contract registered as '<module>:<outer>.<name>'
                nk = getattr(self, "nested_prefix", None)
                if nk and f"{nk}.{fn.name}" in self.contracts:
                    key = f"{nk}.{fn.name}"
            if key and key in self.contracts and not st.ghost:
                from .modular import call_by_contract

                return call_by_contract(self, st, key, fn, args, kwargs, line)
            return self.call_closure(st, fn, args, kwargs, line)
        from .spec import _BoundClosure, _PyFn

        if isinstance(fn, _BoundClosure):
            f2 = self.new_frame(st, parent=None, module=fn.base.module)
            for n_, val_ in fn.binds.items():
                self.setvar(st, f2, n_, val_)
            c2 = Closure(fn.base.node, f2, module=fn.base.module, name=fn.base.name, ghost=True)
            return self.call_closure(st, c2, args, kwargs, line)
        if isinstance(fn, _PyFn):
            return [(st, fn.body(*args))]
        if isinstance(fn, Opaque):
            h = self.call_hooks.get(fn.name)
            if h is None and "[launch]" in fn.name:
                h = self.call_hooks.get("kernel-launch")
            if h is None:
                for pre, hh in self.call_hooks.items():
                    if pre.endswith("*") and fn.name.startswith(pre[:-1]):
                        h = hh
                        break
            if h:
                r = h(self, self.pst, fn, args, kwargs, line)
                if isinstance(r, _Forked):
                    return [((self.cur_state if isinstance(s_, CurState) else s_), v_) for s_, v_ in r.results]
                return [(st, r)]
        raise Unsupported(f"call of {fn!r} at line {line}")

    def bind_params(self, st, fn, args, kwargs, newfid):
        a = fn.node.args
        params = [p.arg for p in a.posonlyargs + a.args]
        defaults = a.defaults
        ndef = len(defaults)
        vals = {}
        if len(args) > len(params) and a.vararg is None:
            raise Unsupported(f"too many positional arguments for {fn.name}")
        for p, v in zip(params, args):
            vals[p] = v
        if a.vararg is not None:
            vals[a.vararg.arg] = tuple(args[len(params) :])
        kw = dict(kwargs)
        for i, p in enumerate(params):
            if p in vals:
                continue
            if p in kw:
                vals[p] = kw.pop(p)
            else:
                di = i - (len(params) - ndef)
                if di < 0:
                    raise Unsupported(f"missing argument {p} for {fn.name}")
                vals[p] = self.eval1(defaults[di], st, newfid)
        for p, d in zip(a.kwonlyargs, a.kw_defaults):
            if p.arg in kw:
                vals[p.arg] = kw.pop(p.arg)
            elif d is not None:
                vals[p.arg] = self.eval1(d, st, newfid)
            else:
                raise Unsupported(f"missing keyword argument {p.arg}")
        if a.kwarg is not None:
            vals[a.kwarg.arg] = self.alloc(st, DictV(kw))
        elif kw:
            raise Unsupported(f"unexpected keyword arguments {list(kw)} for {fn.name}")
        for p, v in vals.items():
            self.setvar(st, newfid, p, v)

    def call_closure(self, st, fn, args, kwargs, line=0):
        """inline execution of a user function"""
        if isinstance(st, CurState):
            st = self.cur_state
        if isinstance(fn.node, ast.Lambda):
            newfid = self.new_frame(st, parent=fn.frame, module=fn.module)
            self.bind_params(st, fn, args, kwargs, newfid)
            gh = fn.ghost and not st.ghost
            if gh:
                st.ghost += 1
            try:
                r = self.eval_fork(fn.node.body, st, newfid)
            finally:
                if gh:
                    st.ghost -= 1
            return r
        parent = fn.frame
        newfid = self.new_frame(st, parent=parent, module=fn.module)
        self.bind_params(st, fn, args, kwargs, newfid)
        gh = fn.ghost and not st.ghost
        if gh:
            st.ghost += 1
        try:
            outs = self.exec_block(fn.node.body, st, newfid)
        finally:
            if gh:
                st.ghost -= 1
        res = []
        for s2, oc in outs:
            if gh and s2 is not st:
                s2.ghost = max(0, s2.ghost - 1) if s2.ghost else 0
            if oc.kind == "return":
                res.append((s2, oc.value))
            elif oc.kind == "normal":
                res.append((s2, None))
            elif oc.kind == "raise":
                res.append((s2, _Raised(oc.value)))
            else:
                raise Unsupported(f"{oc.kind} escapes function {fn.name}")
        return res

    # numpy helpers are provided by npmodel (bound in install) -----------------


def _split_goal(g):
    """conjunctive goals become separate obligations; forall distributes over 'and'"""
    if z3.is_and(g):
        out = []
        for c in g.children():
            out.extend(_split_goal(c))
        return out
    if z3.is_quantifier(g) and g.is_forall():
        body = g.body()
        if z3.is_implies(body) and z3.is_and(body.arg(1)):
            vs = [z3.Const(g.var_name(i), g.var_sort(i)) for i in range(g.num_vars())]
            outs = []
            for c in body.arg(1).children():
                b = z3.substitute_vars(z3.Implies(body.arg(0), c), *reversed(vs))
                outs.append(z3.ForAll(vs, b))
            return outs
    if z3.is_implies(g) and z3.is_and(g.arg(1)):
        return [z3.Implies(g.arg(0), c) for c in _split_goal(g.arg(1))]
    return [g]


class _NoMerge(Exception):
    pass


class _Raised:
    def __init__(self, exc):
        self.exc = exc

    def __repr__(self):
        return f"_Raised({self.exc})"


class _Forked:
    def __init__(self, results):
        self.results = results


class _RangeV:
    def __init__(self, lo, hi, step=1, parallel=False):
        self.lo, self.hi, self.step = lo, hi, step
        self.parallel = parallel


class _ZipV:
    def __init__(self, parts):
        self.parts = parts


class _EnumV:
    def __init__(self, inner, start=0):
        self.inner = inner
        self.start = start


class _MaybeNone:
    """a value that is None iff ``isnone``"""

    def __init__(self, isnone, value):
        self.isnone = isnone
        self.value = value


_MISSING = object()


def _bad():
    raise Unsupported("string ordering")


def _as_load(tgt):
    import copy

    t = copy.deepcopy(tgt)
    for n in ast.walk(t):
        if hasattr(n, "ctx"):
            n.ctx = ast.Load()
    return t


def number_loops(fnode):
    """pre-order ordinal of every For/While in a function body (nested defs excluded
    from their parent's numbering but numbered under 'name.k')"""
    ords = {}
    counter = [0]

    def visit(n, prefix):
        for ch in ast.iter_child_nodes(n):
            if isinstance(ch, (ast.FunctionDef, ast.Lambda)):
                if isinstance(ch, ast.FunctionDef):
                    sub = [0]
                    _number_into(ch, ords, f"{prefix}{ch.name}.")
                continue
            if isinstance(ch, (ast.For, ast.While)):
                ords[id(ch)] = f"{prefix}{counter[0]}"
                counter[0] += 1
            visit(ch, prefix)

    visit(fnode, "")
    return ords


def _number_into(fnode, ords, prefix):
    counter = [0]

    def visit(n):
        for ch in ast.iter_child_nodes(n):
            if isinstance(ch, ast.FunctionDef):
                _number_into(ch, ords, f"{prefix}{ch.name}.")
                continue
            if isinstance(ch, ast.Lambda):
                continue
            if isinstance(ch, (ast.For, ast.While)):
                ords[id(ch)] = f"{prefix}{counter[0]}"
                counter[0] += 1
            visit(ch)

    visit(fnode)
