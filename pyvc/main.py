"""Entry point:  python3-vt -m pyvc.main <Cxx> --tier quick|thorough [--replay file]

exit 0  every obligation discharged (known findings printed)
exit 1  a refuted obligation not covered by a known finding (VIOLATION line)
exit 2  undecided (open obligation / construct outside the interpreted subset)
exit 3  checker error (vacuity guard, solver disagreement, cross-check failure, crash)
"""
from __future__ import annotations

import argparse
import glob
import hashlib
import importlib.util
import json
import os
import subprocess
import sys
import time
import traceback

VERIF = os.path.dirname(os.path.dirname(os.path.abspath(__file__)))
REPO = os.environ.get("VERIF_REPO", "/repo")


def load_contract_modules():
    mods = []
    for path in sorted(glob.glob(os.path.join(VERIF, "contracts", "*.py"))):
        name = "contracts_" + os.path.basename(path)[:-3]
        spec = importlib.util.spec_from_file_location(name, path)
        m = importlib.util.module_from_spec(spec)
        sys.modules[name] = m
        spec.loader.exec_module(m)
        mods.append(m)
    return mods


def all_units(mods):
    units = []
    for m in mods:
        units.extend(getattr(m, "UNITS", []))
    return units


def known_findings():
    p = os.path.join(VERIF, "known_findings.json")
    if not os.path.exists(p):
        return {"findings": [], "fixed": []}
    with open(p) as fh:
        return json.load(fh)


def main(argv=None):
    ap = argparse.ArgumentParser()
    ap.add_argument("prop")
    ap.add_argument("--tier", default=os.environ.get("VERIF_TIER", "quick"))
    ap.add_argument("--replay", default=None)
    ap.add_argument("--units", default=None, help="comma-separated unit ids (debugging)")
    ap.add_argument("--dump", default=None, help="directory for SMT-LIB dumps of open obligations")
    ap.add_argument("--no-runtime", action="store_true")
    ap.add_argument("-v", "--verbose", action="store_true")
    args = ap.parse_args(argv)
    seed = int(os.environ.get("VERIF_SEED", "0") or 0)
    t0 = time.time()
    try:
        if args.replay:
            from . import replay

            return replay.replay_file(args.prop, args.replay)
        from . import driver

        return driver.run_property(args.prop, args.tier, seed, args)
    except SystemExit:
        raise
    except BaseException:
        traceback.print_exc()
        try:
            from . import driver

            driver.write_crash_evidence(args.prop, args.tier, seed, time.time() - t0, traceback.format_exc())
        except Exception:
            pass
        return 3


if __name__ == "__main__":
    sys.exit(main())
