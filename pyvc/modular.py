"""Modular calls: a callee under contract is replaced by
``assert pre; havoc result (and modified buffers); assume post``."""
from __future__ import annotations

import ast

import z3

from . import values as V
from .values import Sym, Cx, Unsupported
from .heap import Ref, ListV, DictV, ArrV, Closure
from .engine import _Raised, State
from .contract import eval_text, make_value


def make_result(eng, st, name, decl, env):
    if decl is None:
        return None
    if isinstance(decl, str):
        if decl in ("int", "real", "bool", "cx"):
            return eng.fresh(name, decl)
        if decl == "none":
            return None
    if isinstance(decl, tuple) and decl[0] == "param":
        return eng.lookup(st, env, decl[1])  # the call returns (an alias of) its own argument
    if isinstance(decl, tuple) and decl[0] == "tuple":
        return tuple(make_result(eng, st, f"{name}.{i}", d, env) for i, d in enumerate(decl[1:]))
    if isinstance(decl, tuple) and decl[0] == "arr":
        _, dtype, shape = decl
        dims = []
        for d in shape:
            dims.append(d if isinstance(d, int) else eval_text(eng, st, env, d))
        return eng.alloc(st, eng.fresh_array(name, tuple(dims), dtype))
    if callable(decl):
        return decl(eng, st, name, env)
    raise Unsupported(f"result decl {decl!r}")


def call_by_contract(eng, st, key, fn, args, kwargs, line):
    unit = eng.contracts[key]
    eng.trusted_calls.add(key)
    # bind actuals to formals in a fresh ghost frame
    fid = eng.new_frame(st, parent=None, module=fn.module if fn.module is not None else eng.module(unit.module))
    eng.bind_params(st, fn, args, kwargs, fid)
    saved_genv = getattr(eng, "ghost_env", None)
    eng.ghost_env_outer = saved_genv if saved_genv is not None else {}
    genv = {}
    eng.ghost_env = genv
    saved_gd = getattr(eng, "ghost_defs", None)
    eng.ghost_defs = unit.opts.get("ghost_defs")
    try:
        for g, kind in unit.ghosts.items():
            if isinstance(kind, tuple):
                genv[g] = eval_text(eng, st, fid, kind[1])
            else:
                raise Unsupported(f"ghost {g} of callee {unit.id} has no definition")
        cname = unit.id
        for label, text in unit.requires:
            v = eval_text(eng, st, fid, text)
            eng.oblige(st, "call_pre", f"{cname}.{label}@{line}", eng.truthy(st, v))
        # havoc declared modified arguments
        olds = {}
        for p, v in st.frames[fid]["vars"].items():
            olds["old_" + p] = st.heap[v.loc] if isinstance(v, Ref) and isinstance(st.heap[v.loc], (ArrV, ListV)) else v
        for m in unit.modifies:
            ref = st.frames[fid]["vars"].get(m)
            if isinstance(ref, Ref):
                obj = st.heap[ref.loc]
                if isinstance(obj, ArrV):
                    eng.frame_write(st, ref, f"call:{cname}@{line}")
                    na = eng.fresh_array(f"{m}_new", obj.shape, obj.dtype)
                    na.bufs = obj.bufs
                    st.heap[ref.loc] = na
                else:
                    raise Unsupported("modifies of non-array")
        results = []
        # exceptional outcomes declared by the contract
        for exc, cond in unit.raises.items():
            if cond is True or exc == "*":
                continue
            c = eng.truthy(st, eval_text(eng, st, fid, cond, olds))
            if c is False:
                continue
            s2 = st.copy()
            s2.assume(c)
            if eng.feasible(s2):
                from .heap import ExcV

                results.append((s2, _Raised(ExcV(exc, (line,)))))
                st.assume(V.b_not(c))
        ens0 = unit.opts.get("call_ensures")
        ens0 = list(ens0.items()) if ens0 else [(l, t) for l, t in unit.ensures if not l.startswith("lemma.")]
        if unit.opts.get("may_return_none"):
            # second normal outcome: the call returns None (the postconditions hold of result = None)
            s_none = st.copy()
            ex0 = {"result": None}
            ex0.update(olds)
            for label, text in ens0:
                s_none.assume(eng.truthy(s_none, eval_text(eng, s_none, fid, text, ex0)))
            if eng.feasible(s_none):
                results.append((s_none, None))
        res = unit.returns(eng, st, fid) if callable(unit.returns) and getattr(unit.returns, "_ctx", False) else make_result(eng, st, f"{cname}.ret", unit.returns, fid)
        extra = {"result": res}
        extra.update(olds)
        ens = unit.opts.get("call_ensures")
        ens = list(ens.items()) if ens else [(l, t) for l, t in unit.ensures if not l.startswith("lemma.")]
        for label, text in ens:
            v = eval_text(eng, st, fid, text, extra)
            st.assume(eng.truthy(st, v))
        if unit.call_post:
            unit.call_post(eng, st, fid, res)
        results.append((st, res))
        return results
    finally:
        eng.ghost_env = saved_genv
        eng.ghost_defs = saved_gd
