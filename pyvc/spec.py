"""Spec-level vocabulary: uninterpreted mathematical functions with their axiom
instances, the ``Sum`` binder (defunctionalised on the fly) and quantifiers.

Everything here is *assumed mathematics* (section 3.2 of DESIGN.md): sqrt, pow,
log, exp, cos/sin, arcsin, angle are uninterpreted; only the listed axiom
instances are given to the solver.
"""
from __future__ import annotations

import ast
from fractions import Fraction

import z3

from . import values as V
from .values import Sym, Cx, Opaque, StrV, Unsupported, VerifError
from .heap import Ref, ListV, DictV, ArrV, ObjV, Closure, Builtin, ModuleV

R = z3.RealSort()
I = z3.IntSort()


def _uf(eng, name, *sig):
    return eng.uf(name, *sig)


def PI(eng):
    pi = Sym(z3.Real("pi"), "real")
    if not getattr(eng, "_pi_fact", False):
        eng._pi_fact = True
        eng.global_facts.append(z3.And(pi.t > z3.RealVal("3.14159"), pi.t < z3.RealVal("3.1416")))
    return pi


# ----------------------------------------------------------------------------- sqrt / pow / log / exp


def _isqrt_exact(q):
    import math

    if q < 0:
        return None
    n, d = q.numerator, q.denominator
    rn, rd = math.isqrt(n), math.isqrt(d)
    if rn * rn == n and rd * rd == d:
        return Fraction(rn, rd)
    return None


def sqrt_of(eng, st, x):
    x = V.as_arith(x)
    if isinstance(x, ArrV):
        return eng.np_map(st, lambda e: sqrt_of(eng, st, e), x)
    if isinstance(x, Cx):
        # principal complex square root a + ib: a >= 0, a^2 - b^2 = re, 2ab = im (assumed mathematics)
        fr, fi = _uf(eng, "csqrt_re", R, R, R), _uf(eng, "csqrt_im", R, R, R)
        xr, xi = V.real_term(x.re), V.real_term(x.im)
        a, b = fr(xr, xi), fi(xr, xi)
        st.fact(a >= 0)
        st.fact(a * a - b * b == xr)
        st.fact(2 * a * b == xi)
        return Cx(Sym(a, "real"), Sym(b, "real"))
    if V.is_concrete_num(x):
        r = _isqrt_exact(Fraction(x))
        if r is not None:
            return r
    if not st.ghost:
        eng.oblige(st, "safe", f"sqrt-domain@{getattr(eng, 'cur_line', 0)}", V.cmp(">=", x, 0))
    f = _uf(eng, "sqrt", R, R)
    xt = V.real_term(x)
    t = f(xt)
    st.fact(t >= 0)
    st.fact(z3.Implies(xt >= 0, t * t == xt))
    eng.sqrt_occ[t.get_id()] = (t, xt)
    return Sym(t, "real")


def pow_of(eng, st, a, b):
    a, b = V.as_arith(a), V.as_arith(b)
    if isinstance(a, Cx) or isinstance(b, Cx):
        raise Unsupported("complex power")
    f = _uf(eng, "pow", R, R, R)
    at, bt = V.real_term(a), V.real_term(b)
    t = f(at, bt)
    st.fact(z3.Implies(at > 0, t > 0))
    st.fact(z3.Implies(z3.And(at > 1, bt > 0), t > 1))
    st.fact(z3.Implies(z3.And(at >= 1, bt >= 0), t >= 1))
    st.fact(z3.Implies(z3.And(at > 0, at < 1, bt > 0), t < 1))
    st.fact(z3.Implies(bt == 0, t == 1))
    st.fact(z3.Implies(bt == 1, t == at))
    eng.pow_occ[t.get_id()] = (t, at, bt)
    return Sym(t, "real")


def log_of(eng, st, x, base="ln"):
    x = V.as_arith(x)
    if isinstance(x, ArrV):
        return eng.np_map(st, lambda e: log_of(eng, st, e, base), x)
    if not st.ghost:
        eng.oblige(st, "safe", f"log-domain@{getattr(eng, 'cur_line', 0)}", V.cmp(">", x, 0))
    f = _uf(eng, base, R, R)
    xt = V.real_term(x)
    t = f(xt)
    st.fact(z3.Implies(xt == 1, t == 0))
    st.fact(z3.Implies(xt > 1, t > 0))
    st.fact(z3.Implies(z3.And(xt > 0, xt < 1), t < 0))
    eng.log_occ[t.get_id()] = (t, xt, base)
    return Sym(t, "real")


def exp_of(eng, st, x):
    x = V.as_arith(x)
    if isinstance(x, ArrV):
        return eng.np_map(st, lambda e: exp_of(eng, st, e), x)
    if isinstance(x, Cx):
        c, s = cos1(eng, st, x.im), sin1(eng, st, x.im)
        if V.is_concrete_num(x.re) and x.re == 0:
            return Cx(c, s)
        m = exp_of(eng, st, x.re)
        return Cx(V.mul(m, c), V.mul(m, s))
    if V.is_concrete_num(x) and x == 0:
        return Fraction(1)
    f = _uf(eng, "exp", R, R)
    xt = V.real_term(x)
    t = f(xt)
    st.fact(t > 0)
    st.fact(z3.Implies(xt == 0, t == 1))
    st.fact(z3.Implies(xt > 0, t > 1))
    st.fact(z3.Implies(xt < 0, t < 1))
    return Sym(t, "real")


# ----------------------------------------------------------------------------- trigonometry
# cosn(theta, n) = cos(theta*n), sinn(theta, n) = sin(theta*n), n integer.


def _split_int_factor(x):
    """x (a real-kinded value) as (theta, n) with n an integer term, if x is syntactically theta*ToReal(n)"""
    if not isinstance(x, Sym):
        return None
    t = x.t
    if z3.is_app(t) and t.decl().kind() == z3.Z3_OP_MUL and t.num_args() == 2:
        a, b = t.arg(0), t.arg(1)
        for u, v in ((a, b), (b, a)):
            if z3.is_app(v) and v.decl().kind() == z3.Z3_OP_TO_REAL:
                return Sym(u, "real"), Sym(v.arg(0), "int")
    if z3.is_app(t) and t.decl().kind() == z3.Z3_OP_TO_REAL:
        return None
    return None


def cosn(eng, st, theta, n):
    return _trig(eng, st, theta, n, "cosn")


def sinn(eng, st, theta, n):
    return _trig(eng, st, theta, n, "sinn")


def _trig(eng, st, theta, n, which):
    theta, n = V.as_arith(theta), V.as_arith(n)
    if V.is_concrete_num(n) and n == 0 or (V.is_concrete_num(theta) and theta == 0):
        return Fraction(1) if which == "cosn" else Fraction(0)
    if isinstance(n, Fraction):
        if n.denominator != 1:
            raise Unsupported("non-integer multiple in cosn/sinn")
        n = int(n)
    # cos is even and sin is odd in theta: normalise a negated angle
    if isinstance(theta, Sym):
        tz = theta.t
        neg = None
        if z3.is_app(tz) and tz.decl().kind() == z3.Z3_OP_UMINUS:
            neg = tz.arg(0)
        elif z3.is_app(tz) and tz.decl().kind() == z3.Z3_OP_MUL and tz.num_args() == 2 and z3.is_rational_value(tz.arg(0)) and tz.arg(0).numerator_as_long() < 0:
            c_ = tz.arg(0)
            neg = tz.arg(1) if (c_.numerator_as_long() == -1 and c_.denominator_as_long() == 1) else (z3.RealVal(str(-Fraction(c_.numerator_as_long(), c_.denominator_as_long()))) * tz.arg(1))
        if neg is not None:
            r = _trig(eng, st, Sym(neg, "real"), n, which)
            return r if which == "cosn" else V.neg(r)
    elif V.is_concrete_num(theta) and theta < 0:
        r = _trig(eng, st, -theta, n, which)
        return r if which == "cosn" else V.neg(r)
    fc = _uf(eng, "cosn", R, I, R)
    fs = _uf(eng, "sinn", R, I, R)
    tt, nt = V.real_term(theta), V.int_term(n)
    c, s = fc(tt, nt), fs(tt, nt)
    st.fact(c * c + s * s == 1)
    eng.trig_occ[(tt.get_id(), nt.get_id())] = (tt, nt)
    return Sym(c if which == "cosn" else s, "real")


def cos1(eng, st, x):
    x = V.as_arith(x)
    if isinstance(x, ArrV):
        return eng.np_map(st, lambda e: cos1(eng, st, e), x)
    sp = _split_int_factor(x)
    if sp:
        return cosn(eng, st, sp[0], sp[1])
    return cosn(eng, st, x, 1)


def sin1(eng, st, x):
    x = V.as_arith(x)
    if isinstance(x, ArrV):
        return eng.np_map(st, lambda e: sin1(eng, st, e), x)
    sp = _split_int_factor(x)
    if sp:
        return sinn(eng, st, sp[0], sp[1])
    return sinn(eng, st, x, 1)


def arcsin_of(eng, st, x):
    x = V.as_arith(x)
    if isinstance(x, ArrV):
        return eng.np_map(st, lambda e: arcsin_of(eng, st, e), x)
    if not st.ghost:
        eng.oblige(st, "safe", f"arcsin-domain@{getattr(eng, 'cur_line', 0)}", V.b_and(V.cmp(">=", x, -1), V.cmp("<=", x, 1)))
    f = _uf(eng, "arcsin", R, R)
    xt = V.real_term(x)
    t = f(xt)
    pi = PI(eng).t
    st.fact(z3.Implies(xt == 0, t == 0))
    st.fact(z3.Implies(z3.And(xt >= 0, xt <= 1), z3.And(t >= xt, t <= pi / 2 * xt)))
    st.fact(z3.Implies(xt == 1, t == pi / 2))
    return Sym(t, "real")


def angle_of(eng, st, z, deg=False):
    if isinstance(z, ArrV):
        return eng.np_map(st, lambda e: angle_of(eng, st, e, deg), z)
    z = V.cx_of(V.as_arith(z))
    f = _uf(eng, "angle", R, R, R)
    t = f(V.real_term(z.re), V.real_term(z.im))
    pi = PI(eng).t
    st.fact(z3.And(t > -pi, t <= pi))
    r = Sym(t, "real")
    if eng.truthy(st, deg) is True:
        return V.mul(V.truediv(180, PI(eng)), r)
    return r


# ----------------------------------------------------------------------------- closure abstraction


def free_names(node):
    """names read in a lambda / def body that are not bound by it"""
    bound = set()
    a = node.args
    for p in a.posonlyargs + a.args + a.kwonlyargs:
        bound.add(p.arg)
    if a.vararg:
        bound.add(a.vararg.arg)
    if a.kwarg:
        bound.add(a.kwarg.arg)
    body = [node.body] if isinstance(node, ast.Lambda) else node.body
    loads, stores = [], set()

    def visit(n, inner_bound):
        if isinstance(n, ast.Lambda):
            ib = set(inner_bound)
            for p in n.args.posonlyargs + n.args.args + n.args.kwonlyargs:
                ib.add(p.arg)
            visit(n.body, ib)
            return
        if isinstance(n, ast.FunctionDef):
            stores.add(n.name)
            ib = set(inner_bound)
            for p in n.args.posonlyargs + n.args.args + n.args.kwonlyargs:
                ib.add(p.arg)
            for s in n.body:
                visit(s, ib)
            return
        if isinstance(n, ast.Name):
            if isinstance(n.ctx, ast.Load):
                if n.id not in inner_bound:
                    loads.append(n.id)
            else:
                stores.add(n.id)
        if isinstance(n, (ast.ListComp, ast.GeneratorExp)):
            ib = set(inner_bound)
            for g in n.generators:
                for t in ast.walk(g.target):
                    if isinstance(t, ast.Name):
                        ib.add(t.id)
            for g in n.generators:
                visit(g.iter, ib)
                for c in g.ifs:
                    visit(c, ib)
            visit(n.elt, ib)
            return
        for ch in ast.iter_child_nodes(n):
            visit(ch, inner_bound)

    for b in body:
        visit(b, bound)
    out = []
    for n in loads:
        if n not in stores and n not in out:
            out.append(n)
    return out


class _Template:
    """closure with its scalar free values turned into parameters"""

    def __init__(self, node, slots, module, ghost):
        self.node = node
        self.slots = slots  # [(name, kind, payload)]
        self.module = module
        self.ghost = ghost


def abstract(eng, st, v, depth=0):
    """-> (key, args[list of scalar values], rebuild(list)->value)"""
    if depth > 12:
        raise Unsupported("closure nesting too deep")
    v0 = v
    v = eng.deref(st, v)
    if isinstance(v, bool) or v is None or isinstance(v, str):
        return ("const", repr(v)), [], (lambda xs: v)
    if isinstance(v, (int, Fraction)) or isinstance(v, Sym):
        k = V.kind_of(v)
        return ("s", k), [v], (lambda xs: xs.pop(0))
    if isinstance(v, float):
        return abstract(eng, st, V.norm_num(v), depth)
    if isinstance(v, Cx):
        return ("cx",), [v.re, v.im], (lambda xs: Cx(xs.pop(0), xs.pop(0)))
    if isinstance(v, tuple):
        parts = [abstract(eng, st, x, depth + 1) for x in v]
        key = ("tuple",) + tuple(p[0] for p in parts)
        args = [a for p in parts for a in p[1]]

        def rb(xs, parts=parts):
            return tuple(p[2](xs) for p in parts)

        return key, args, rb
    if isinstance(v, ArrV):
        atom = getattr(v, "atom", None)
        return ("arr", atom if atom else ("uid", v.uid)), [], (lambda xs: v)
    if isinstance(v, ListV):
        return ("list", id(v)), [], (lambda xs: v)
    if isinstance(v, (Builtin,)):
        return ("builtin", v.name), [], (lambda xs: v)
    if isinstance(v, (Opaque, ModuleV)):
        return ("opaque", v.name), [], (lambda xs: v)
    if isinstance(v, (DictV, ObjV)):
        return ("obj", id(v)), [], (lambda xs: v)
    if isinstance(v, Closure):
        names = free_names(v.node)
        parts = []
        for n in names:
            try:
                if v.frame is None and v.module is None:
                    val = eng.lookup(st, None, n)
                else:
                    val = _lookup_closure(eng, st, v, n)
            except Unsupported:
                continue
            if isinstance(val, Closure) and val.frame is None and val.module is not None:
                parts.append((n, ("modfn", val.name), [], (lambda xs, val=val: val)))
                continue
            k, a, rb = abstract(eng, st, val, depth + 1)
            parts.append((n, k, a, rb))
        key = ("clo", id(v.node)) + tuple((n, k) for n, k, _, _ in parts)
        args = [x for p in parts for x in p[2]]

        def rb(xs, parts=parts, v=v):
            binds = {n: r(xs) for n, _, _, r in parts}
            return _BoundClosure(v, binds)

        return key, args, rb
    if isinstance(v, _BoundClosure):
        parts = []
        for n, val in v.binds.items():
            k, a, rb = abstract(eng, st, val, depth + 1)
            parts.append((n, k, a, rb))
        key = ("clo", id(v.base.node)) + tuple((n, k) for n, k, _, _ in parts)
        args = [x for p in parts for x in p[2]]

        def rb(xs, parts=parts, v=v):
            return _BoundClosure(v.base, {n: r(xs) for n, _, _, r in parts})

        return key, args, rb
    raise Unsupported(f"cannot abstract {v!r} in a spec closure")


def _lookup_closure(eng, st, clo, name):
    if clo.frame is not None and clo.frame in st.frames:
        return eng.lookup(st, clo.frame, name)
    if clo.module is not None:
        r = eng.module_global(st, clo.module, name)
        from .engine import _MISSING

        if r is not _MISSING:
            return r
    if eng.spec_frame is not None and name in eng.spec_frame:
        return eng.spec_frame[name]
    if name in eng.builtins:
        return eng.builtins[name]
    raise Unsupported(f"unbound name {name!r} in closure")


class _BoundClosure:
    """a closure whose free variables are bound by value (independent of any state)"""

    def __init__(self, base, binds):
        self.base = base
        self.binds = binds
        self.name = base.name

    def __repr__(self):
        return f"_BoundClosure({self.base.name})"


def call_fn(eng, st, fn, args):
    """call a closure-like value on scalar arguments, in ghost mode, single result"""
    from .engine import CurState

    if isinstance(st, CurState):
        st = eng.cur_state
    else:
        eng.cur_state = st
    st.ghost += 1
    try:
        if isinstance(fn, _BoundClosure):
            fid = eng.new_frame(st, parent=None, module=fn.base.module)
            for n, val in fn.binds.items():
                eng.setvar(st, fid, n, val)
            c2 = Closure(fn.base.node, fid, module=fn.base.module, name=fn.base.name, ghost=True)
            rs = eng.call_closure(st, c2, list(args), {})
        else:
            rs = eng.call(st, fn, list(args), {})
    finally:
        st.ghost -= 1
    if len(rs) != 1:
        raise Unsupported("spec function forks")
    return eng.deref(st, rs[0][1])


# ----------------------------------------------------------------------------- Sum


def spec_Sum(eng, st, lo, hi, fn):
    """Sum(lo, hi, f) = sum of f(n) for lo <= n < hi"""
    lo, hi = V.as_arith(eng.deref(st, lo)), V.as_arith(eng.deref(st, hi))
    if isinstance(lo, int) and isinstance(hi, int) and hi - lo <= 6:
        out = 0
        for n in range(lo, hi):
            out = V.add(out, call_fn(eng, st, fn, [n]))
        return out if (hi > lo) else Fraction(0)
    key, args, rb = abstract(eng, st, fn)
    # canonical form: scalar captures -> positional placeholders, bound index -> n!c.
    # Two closures with the same canonical summand share one uninterpreted function.
    ph = []
    for i, a in enumerate(args):
        ph.append(Sym(z3.Int(f"a!{i}"), "int") if V.is_intlike(a) else Sym(z3.Real(f"a!{i}"), "real"))
    canon = rb(list(ph))
    nfacts = len(st.facts)
    pv = call_fn(eng, st, canon, [Sym(z3.Int("n!c"), "int")])
    del st.facts[nfacts:]  # facts about the canonical placeholders are of no use
    is_cx = isinstance(pv, Cx)
    if is_cx:
        ckey = ("cx", z3.simplify(V.real_term(pv.re)).sexpr(), z3.simplify(V.real_term(pv.im)).sexpr())
    else:
        ckey = ("re", z3.simplify(V.real_term(pv)).sexpr())
    hkey = _keyhash((ckey, tuple("i" if V.is_intlike(a) else "r" for a in args)))
    sorts = [(I if V.is_intlike(a) else R) for a in args]
    argts = [(V.int_term(a) if V.is_intlike(a) else V.real_term(a)) for a in args]
    kinds = ["int" if V.is_intlike(a) else "real" for a in args]
    names = [f"Sum_{hkey}.re", f"Sum_{hkey}.im"] if is_cx else [f"Sum_{hkey}"]
    heap_snap = None
    if _captures_heap(key):
        real = eng.cur_state if not hasattr(st, "heap") or st.__class__.__name__ == "CurState" else st
        heap_snap = dict(real.heap)
    outs = []
    for nm in names:
        f = _uf(eng, nm, *sorts, I, I, R)
        eng.sum_registry[nm] = dict(rebuild=rb, kinds=kinds, is_cx=is_cx, part=("im" if nm.endswith(".im") else "re"), names=names, nargs=len(args), heap=heap_snap)
        outs.append(Sym(f(*argts, V.int_term(lo), V.int_term(hi)), "real"))
    if is_cx:
        return Cx(outs[0], outs[1])
    return outs[0]


def _keyhash(key):
    import hashlib

    return hashlib.sha1(repr(key).encode()).hexdigest()[:10]


def sum_of_terms(eng, st, lo, hi, body):
    """Sum over a Python callable n -> value (program-computed reductions)"""
    lo, hi = V.as_arith(lo), V.as_arith(hi)
    if isinstance(lo, int) and isinstance(hi, int) and hi - lo <= 6:
        out = Fraction(0)
        for n in range(lo, hi):
            out = V.add(out, body(n))
        return out
    fn = _PyFn(body)
    return spec_Sum(eng, st, lo, hi, fn)


class _PyFn:
    """a Python-level function of one index, used as a summand"""

    _count = [0]

    def __init__(self, body):
        self.body = body
        _PyFn._count[0] += 1
        self.uid = _PyFn._count[0]
        self.name = f"pyfn{self.uid}"


_orig_abstract = abstract


def _free_consts(terms, exclude):
    out = {}
    st_ = list(terms)
    seen = set()
    while st_:
        x = st_.pop()
        if x.get_id() in seen:
            continue
        seen.add(x.get_id())
        if z3.is_quantifier(x):
            st_.append(x.body())
        elif z3.is_app(x):
            if x.num_args() == 0 and x.decl().kind() == z3.Z3_OP_UNINTERPRETED and x.sort().kind() in (z3.Z3_INT_SORT, z3.Z3_REAL_SORT):
                if x.get_id() not in exclude:
                    out[x.decl().name()] = x
            st_.extend(x.children())
    return [out[k] for k in sorted(out)]


class _TermFn(_PyFn):
    """summand given as z3 term(s) in a canonical index, with its scalar constants as parameters"""

    def __init__(self, terms, n0, consts, args, is_cx):
        self.terms, self.n0, self.consts, self.args, self.is_cx = terms, n0, consts, args, is_cx
        _PyFn._count[0] += 1
        self.uid = _PyFn._count[0]
        self.name = f"termfn{self.uid}"

    def body(self, n):
        subs = [(self.n0, V.int_term(n))] + [(c, (V.int_term(a) if c.sort().kind() == z3.Z3_INT_SORT else V.real_term(a))) for c, a in zip(self.consts, self.args)]
        ts = [z3.substitute(t, *subs) for t in self.terms]
        if self.is_cx:
            return Cx(V.mk(ts[0], "real"), V.mk(ts[1], "real"))
        return V.mk(ts[0], "real")


def abstract(eng, st, v, depth=0):  # noqa: F811  (extends the function above)
    if isinstance(v, _TermFn):
        args = list(v.args)

        def rb(xs, v=v):
            return _TermFn(v.terms, v.n0, v.consts, [xs.pop(0) for _ in v.consts], v.is_cx)

        return ("termfn", tuple(t.sexpr() for t in v.terms), tuple(str(c) for c in v.consts)), args, rb
    if isinstance(v, _PyFn):
        # a program-computed summand: every scalar constant of its term becomes a parameter
        # of the sum (so that it is bound correctly under quantifiers and by congruence)
        n0 = z3.Int("n!canon")
        st.ghost += 1
        nf_ = len(st.facts)
        try:
            t = v.body(Sym(n0, "int"))
        finally:
            st.ghost -= 1
            del st.facts[nf_:]
        is_cx = isinstance(t, Cx)
        terms = [V.real_term(t.re), V.real_term(t.im)] if is_cx else [V.real_term(V.to_real(t))]
        consts = _free_consts(terms, {n0.get_id()})
        tf = _TermFn(terms, n0, consts, [Sym(c, "int" if c.sort().kind() == z3.Z3_INT_SORT else "real") for c in consts], is_cx)
        return abstract(eng, st, tf, depth)
    return _orig_abstract(eng, st, v, depth)


_orig_call_fn = call_fn


def call_fn(eng, st, fn, args):  # noqa: F811
    if isinstance(fn, _PyFn):
        st.ghost += 1
        try:
            return fn.body(*args)
        finally:
            st.ghost -= 1
    return _orig_call_fn(eng, st, fn, args)


# ----------------------------------------------------------------------------- quantifiers


def spec_forall(eng, st, lo, hi, fn):
    lo, hi = eng.deref(st, lo), eng.deref(st, hi)
    if isinstance(lo, int) and isinstance(hi, int) and hi - lo <= 8:
        return V.b_and(*[eng.truthy(st, call_fn(eng, st, fn, [k])) for k in range(lo, hi)])
    # forall k in [lo, t+1): P(k)  <=>  forall k in [lo, t): P(k)  and  (lo <= t -> P(t))
    last = None
    if isinstance(hi, Sym):
        h = hi.t
        if z3.is_app(h) and h.decl().kind() == z3.Z3_OP_ADD and h.num_args() == 2:
            for u, v in ((h.arg(0), h.arg(1)), (h.arg(1), h.arg(0))):
                if z3.is_int_value(v) and v.as_long() == 1:
                    last = Sym(u, "int")
    k = eng.fresh("k", "int")
    body = eng.truthy(st, call_fn(eng, st, fn, [k]))
    if last is not None:
        rng = z3.And(V.int_term(lo) <= k.t, k.t < last.t)
        q = z3.ForAll([k.t], z3.Implies(rng, V.bool_term(body)))
        bl = eng.truthy(st, call_fn(eng, st, fn, [last]))
        return Sym(z3.And(q, z3.Implies(V.int_term(lo) <= last.t, V.bool_term(bl))), "bool")
    rng = z3.And(V.int_term(lo) <= k.t, k.t < V.int_term(hi))
    return Sym(z3.ForAll([k.t], z3.Implies(rng, V.bool_term(body))), "bool")


def spec_exists(eng, st, lo, hi, fn):
    lo, hi = eng.deref(st, lo), eng.deref(st, hi)
    k = eng.fresh("k", "int")
    body = eng.truthy(st, call_fn(eng, st, fn, [k]))
    rng = z3.And(V.int_term(lo) <= k.t, k.t < V.int_term(hi))
    return Sym(z3.Exists([k.t], z3.And(rng, V.bool_term(body))), "bool")


# ----------------------------------------------------------------------------- saturation


def _apps(t, acc, seen, consts=False):
    if t.get_id() in seen:
        return
    seen.add(t.get_id())
    if z3.is_quantifier(t):
        _apps(t.body(), acc, seen, consts)
        return
    if z3.is_app(t):
        d = t.decl()
        if d.kind() == z3.Z3_OP_UNINTERPRETED and (t.num_args() > 0 or consts):
            acc.setdefault(d.name(), []).append(t)
        elif d.kind() == z3.Z3_OP_TO_INT:
            acc.setdefault("%to_int", []).append(t)
        for ch in t.children():
            _apps(ch, acc, seen, consts)


def _has_bound(t):
    """term mentions a de-Bruijn variable (inside a quantifier)"""
    stack = [t]
    seen = set()
    while stack:
        x = stack.pop()
        if x.get_id() in seen:
            continue
        seen.add(x.get_id())
        if z3.is_var(x):
            return True
        if z3.is_app(x):
            stack.extend(x.children())
    return False


def _diff_is(a, b, c):
    d = z3.simplify(a - b)
    return z3.is_int_value(d) and d.as_long() == c


def saturate(eng, formulas, rounds=3, unroll_limit=6, level=0, goal=None):
    """definitional unfolding of Sum / cosn / sinn / sqrt at the indices the VC mentions.
    Returns a list of extra hypotheses (all instances of definitions or of the
    assumed axioms of section 3.2)."""
    extra = []
    done = set()
    scratch = eng.new_scratch_state()
    eng.cur_state = scratch
    forms = list(formulas)
    goal_ids = None
    if goal is not None:
        gacc, gseen = {}, set()
        for g in goal:
            _apps(g, gacc, gseen, True)
        goal_ids = {a.get_id() for apps in gacc.values() for a in apps}
        # closure under co-occurrence: a sum mentioned together with a goal-related
        # application in some hypothesis is itself related (three hops)
        per_form = []
        for f in forms:
            facc, fseen = {}, set()
            _apps(f, facc, fseen, True)
            per_form.append({a.get_id() for apps in facc.values() for a in apps})
        for _hop in range(3):
            grew = False
            for ids in per_form:
                if ids & goal_ids and not ids <= goal_ids:
                    goal_ids |= ids
                    grew = True
            if not grew:
                break
    for _ in range(rounds):
        acc = {}
        seen = set()
        for f in forms:
            _apps(f, acc, seen)
        new = []
        # --- Sum unfolding between adjacent upper bounds and at empty / tiny ranges
        for nm, apps in acc.items():
            reg = eng.sum_registry.get(nm)
            if reg is None or reg["part"] == "im":
                continue
            apps = [a for a in apps if not _has_bound(a)]
            groups = {}
            for a in apps:
                n = a.num_args()
                k = tuple(a.arg(i).get_id() for i in range(n - 1))
                groups.setdefault(k, []).append(a)
            for g in groups.values():
                for a in g:
                    n = a.num_args()
                    lo, hi = a.arg(n - 2), a.arg(n - 1)
                    d = z3.simplify(hi - lo)
                    tag = ("rng", nm, a.get_id())
                    if tag not in done:
                        done.add(tag)
                        new.extend(_sum_empty(eng, scratch, nm, reg, a))
                        if level >= 1 and (goal_ids is None or a.get_id() in goal_ids):
                            new.extend(_sum_sign(eng, scratch, nm, reg, a))
                        if z3.is_int_value(d) and 0 < d.as_long() <= unroll_limit:
                            new.extend(_sum_unroll(eng, scratch, nm, reg, a, d.as_long()))
                    for b in g:
                        if a is b:
                            continue
                        if _diff_is(hi, b.arg(n - 1), 1):
                            tag = ("adj", nm, a.get_id(), b.get_id())
                            if tag in done:
                                continue
                            done.add(tag)
                            new.extend(_sum_step(eng, scratch, nm, reg, a, b))
        # --- Sum extensionality: two sums over the same range whose summands agree pointwise
        # are equal.  Instance with a fresh witness n0:  (lo<=n0<hi and f(n0)!=g(n0)) or S_f==S_g.
        sums = []
        for nm, apps in acc.items():
            reg = eng.sum_registry.get(nm)
            if reg is None or reg["part"] == "im":
                continue
            for a in apps:
                if not _has_bound(a):
                    sums.append((nm, reg, a))
        npairs = 0
        for i, (nm1, reg1, a) in enumerate(sums):
            for nm2, reg2, b in sums[i + 1 :]:
                if nm1 == nm2 or reg1["is_cx"] != reg2["is_cx"]:
                    continue
                na, nb = a.num_args(), b.num_args()
                if a.arg(na - 2).get_id() != b.arg(nb - 2).get_id() or a.arg(na - 1).get_id() != b.arg(nb - 1).get_id():
                    continue
                tag = ("ext", a.get_id(), b.get_id())
                if tag in done or npairs > 80:
                    continue
                related = goal_ids is None or a.get_id() in goal_ids or b.get_id() in goal_ids
                done.add(tag)
                npairs += 1
                new.extend(_sum_ext(eng, scratch, nm1, reg1, a, nm2, reg2, b, conj=(level >= 1 and related)))
        # --- trig: angle addition between adjacent multiples
        cs = acc.get("cosn", []) + acc.get("sinn", [])
        occ = {}
        for a in cs:
            if _has_bound(a):
                continue
            occ[(a.arg(0).get_id(), a.arg(1).get_id())] = (a.arg(0), a.arg(1))
        fc = eng.uf("cosn", R, I, R)
        fs = eng.uf("sinn", R, I, R)
        occl = list(occ.values())
        for th, n in occl:
            tag = ("trig0", th.get_id(), n.get_id())
            if tag not in done:
                done.add(tag)
                new.append(fc(th, n) * fc(th, n) + fs(th, n) * fs(th, n) == 1)
                new.append(z3.Implies(n == 0, z3.And(fc(th, n) == 1, fs(th, n) == 0)))
            for th2, n2 in occl:
                if th2.get_id() != th.get_id():
                    continue
                if _diff_is(n, n2, 1):
                    tag = ("trig+", th.get_id(), n.get_id(), n2.get_id())
                    if tag in done:
                        continue
                    done.add(tag)
                    c1, s1 = fc(th, z3.IntVal(1)), fs(th, z3.IntVal(1))
                    new.append(c1 * c1 + s1 * s1 == 1)
                    new.append(fc(th, n) == fc(th, n2) * c1 - fs(th, n2) * s1)
                    new.append(fs(th, n) == fs(th, n2) * c1 + fc(th, n2) * s1)
        # --- sqrt / pow / log monotonicity between occurrences
        for nm, mono in (("sqrt", "sqrt"), ("ln", "log"), ("log10", "log")):
            sq = [a for a in acc.get(nm, []) if not _has_bound(a)]
            if nm == "sqrt":
                # defining axioms at every occurrence (occurrences created by instantiating a
                # quantified hypothesis have none yet)
                for a in sq:
                    tag = ("sqrtdef", a.get_id())
                    if tag not in done:
                        done.add(tag)
                        new.append(a >= 0)
                        new.append(z3.Implies(a.arg(0) >= 0, a * a == a.arg(0)))
            for i, a in enumerate(sq):
                for b in sq[i + 1 :]:
                    tag = (nm + "mono", a.get_id(), b.get_id())
                    if tag in done:
                        continue
                    done.add(tag)
                    x, y = a.arg(0), b.arg(0)
                    dom = z3.And(x >= 0, y >= 0) if nm == "sqrt" else z3.And(x > 0, y > 0)
                    new.append(z3.Implies(dom, z3.And(z3.Implies(x <= y, a <= b), z3.Implies(x < y, a < b), z3.Implies(y < x, b < a))))
        # --- complex square root: defining equations at every occurrence
        for a in [a for a in acc.get("csqrt_re", []) + acc.get("csqrt_im", []) if not _has_bound(a)]:
            tag = ("csqrtdef", a.arg(0).get_id(), a.arg(1).get_id())
            if tag in done:
                continue
            done.add(tag)
            fr_, fi_ = _uf(eng, "csqrt_re", R, R, R), _uf(eng, "csqrt_im", R, R, R)
            ar, ai = fr_(a.arg(0), a.arg(1)), fi_(a.arg(0), a.arg(1))
            new.append(ar >= 0)
            new.append(ar * ar - ai * ai == a.arg(0))
            new.append(2 * ar * ai == a.arg(1))
        pw = [a for a in acc.get("pow", []) if not _has_bound(a)]
        for i, a in enumerate(pw):
            for b in pw[i + 1 :]:
                tag = ("powmono", a.get_id(), b.get_id())
                if tag in done:
                    continue
                done.add(tag)
                if a.arg(1).get_id() == b.arg(1).get_id():
                    x, y, e = a.arg(0), b.arg(0), a.arg(1)
                    new.append(z3.Implies(z3.And(x > 0, y > 0, e > 0), z3.And(z3.Implies(x <= y, a <= b), z3.Implies(x < y, a < b))))
                if a.arg(0).get_id() == b.arg(0).get_id():
                    x, e1, e2 = a.arg(0), a.arg(1), b.arg(1)
                    new.append(z3.Implies(z3.And(x > 1), z3.And(z3.Implies(e1 <= e2, a <= b), z3.Implies(e1 < e2, a < b), z3.Implies(e2 < e1, b < a))))
        # --- floors whose arguments differ (or sum) by a constant: bounded integer gap.
        # (pure arithmetic facts; they keep branch-and-bound finite on unbounded mixed problems)
        fl = [a for a in acc.get("%to_int", []) if not _has_bound(a)]
        for i, a in enumerate(fl):
            for b in fl[i + 1 :]:
                tag = ("floorpair", a.get_id(), b.get_id())
                if tag in done:
                    continue
                done.add(tag)
                d = z3.simplify(a.arg(0) - b.arg(0))
                if z3.is_rational_value(d) or z3.is_int_value(d):
                    from fractions import Fraction as _F
                    c = _F(d.numerator_as_long(), d.denominator_as_long())
                    f0 = c.numerator // c.denominator
                    hi_ = f0 if c.denominator == 1 else f0 + 1
                    new.append(z3.And(a - b >= f0, a - b <= hi_))
                    continue
                sm = z3.simplify(a.arg(0) + b.arg(0))
                if z3.is_rational_value(sm) or z3.is_int_value(sm):
                    from fractions import Fraction as _F
                    c = _F(sm.numerator_as_long(), sm.denominator_as_long())
                    f0 = c.numerator // c.denominator
                    new.append(z3.And(a + b >= f0 - 1, a + b <= f0))
        if not new:
            break
        extra.extend(new)
        forms = new
    extra.extend(scratch.facts)
    return extra


def _sum_parts(eng, nm, reg, app):
    n = app.num_args()
    args = [app.arg(i) for i in range(n - 2)]
    lo, hi = app.arg(n - 2), app.arg(n - 1)
    vals = [Sym(a, k) if not (z3.is_int_value(a) or z3.is_rational_value(a)) else V.mk(a, k) for a, k in zip(args, reg["kinds"])]
    fn = reg["rebuild"](list(vals))
    # a summand that captured a dict / object reads the heap as it was when the sum was written
    hp = getattr(getattr(eng, "cur_state", None), "heap", None)
    if isinstance(hp, _FallbackHeap):
        hp.fallback = reg.get("heap") or {}
    return args, lo, hi, fn


class _FallbackHeap(dict):
    fallback = None

    def __missing__(self, key):
        if self.fallback is not None and key in self.fallback:
            return self.fallback[key]
        raise KeyError(key)

    def get(self, key, default=None):
        if key in self:
            return dict.__getitem__(self, key)
        if self.fallback is not None and key in self.fallback:
            return self.fallback[key]
        return default


def _captures_heap(key):
    if isinstance(key, tuple):
        if key and key[0] in ("obj", "list"):
            return True
        return any(_captures_heap(k) for k in key)
    return False


def _sum_app(eng, nm, reg, args, lo, hi):
    outs = []
    for name in reg["names"]:
        f = None
        for (k, sig), fn in eng.ufs.items():
            if k == name:
                f = fn
                break
        outs.append(f(*args, lo, hi))
    return outs


def _val_terms(v, is_cx):
    if is_cx:
        v = V.cx_of(v)
        return [V.real_term(v.re), V.real_term(v.im)]
    return [V.real_term(v)]


def _sum_empty(eng, st, nm, reg, app):
    args, lo, hi, fn = _sum_parts(eng, nm, reg, app)
    cur = _sum_app(eng, nm, reg, args, lo, hi)
    return [z3.Implies(hi <= lo, z3.And(*[c == 0 for c in cur]))]


def _sum_step(eng, st, nm, reg, a, b):
    """a has upper bound hi, b has hi-1 (same lo and parameters)"""
    args, lo, hi, fn = _sum_parts(eng, nm, reg, a)
    hb = b.arg(b.num_args() - 1)
    cur = _sum_app(eng, nm, reg, args, lo, hi)
    prev = _sum_app(eng, nm, reg, args, lo, hb)
    body = call_fn(eng, st, fn, [Sym(hb, "int")])
    bt = _val_terms(body, reg["is_cx"])
    return [z3.Implies(hb >= lo, z3.And(*[c == p + t for c, p, t in zip(cur, prev, bt)]))]


def _sum_sign(eng, st, nm, reg, a):
    """a sum of zeros is zero; a sum of non-negative reals is non-negative
    (instances with fresh witnesses of the two inductive facts L7)"""
    args, lo, hi, fn = _sum_parts(eng, nm, reg, a)
    cur = _sum_app(eng, nm, reg, args, lo, hi)
    n0 = eng.fresh("wz", "int")
    b0 = _val_terms(call_fn(eng, st, fn, [n0]), reg["is_cx"])
    out = [z3.Or(z3.And(lo <= n0.t, n0.t < hi, z3.Or(*[x != 0 for x in b0])), z3.And(*[c == 0 for c in cur]))]
    if not reg["is_cx"]:
        n1 = eng.fresh("wn", "int")
        b1 = _val_terms(call_fn(eng, st, fn, [n1]), False)
        out.append(z3.Or(z3.And(lo <= n1.t, n1.t < hi, b1[0] < 0), cur[0] >= 0))
    return out


def _sum_ext(eng, st, nm1, reg1, a, nm2, reg2, b, conj=False):
    args1, lo, hi, f1 = _sum_parts(eng, nm1, reg1, a)
    args2, _, _, f2 = _sum_parts(eng, nm2, reg2, b)
    n0 = eng.fresh("w", "int")
    b1 = _val_terms(call_fn(eng, st, f1, [n0]), reg1["is_cx"])
    b2 = _val_terms(call_fn(eng, st, f2, [n0]), reg2["is_cx"])
    s1 = _sum_app(eng, nm1, reg1, args1, lo, hi)
    s2 = _sum_app(eng, nm2, reg2, args2, lo, hi)
    differ = z3.Or(*[x != y for x, y in zip(b1, b2)])
    same = z3.And(*[x == y for x, y in zip(s1, s2)])
    out = [z3.Or(z3.And(lo <= n0.t, n0.t < hi, differ), same)]
    if conj:
        # L3/L4: summands that are pointwise conjugate (complex) or negated (real) give
        # conjugate / negated sums
        n1 = eng.fresh("wc", "int")
        c1 = _val_terms(call_fn(eng, st, f1, [n1]), reg1["is_cx"])
        c2 = _val_terms(call_fn(eng, st, f2, [n1]), reg2["is_cx"])
        if reg1["is_cx"]:
            d2 = z3.Or(c1[0] != c2[0], c1[1] != -c2[1])
            sm = z3.And(s1[0] == s2[0], s1[1] == -s2[1])
        else:
            d2 = c1[0] != -c2[0]
            sm = s1[0] == -s2[0]
        out.append(z3.Or(z3.And(lo <= n1.t, n1.t < hi, d2), sm))
    return out


def _sum_unroll(eng, st, nm, reg, app, d):
    args, lo, hi, fn = _sum_parts(eng, nm, reg, app)
    cur = _sum_app(eng, nm, reg, args, lo, hi)
    tot = None
    for k in range(d):
        body = call_fn(eng, st, fn, [V.mk(z3.simplify(lo + k), "int")])
        bt = _val_terms(body, reg["is_cx"])
        tot = bt if tot is None else [x + y for x, y in zip(tot, bt)]
    return [c == t for c, t in zip(cur, tot)]


# ----------------------------------------------------------------------------- install


def install(eng):
    eng.sqrt_occ = {}
    eng.pow_occ = {}
    eng.log_occ = {}
    eng.trig_occ = {}
    B = eng.builtins

    def reg(name, fn):
        B[name] = Builtin(name, fn, True)

    reg("Sum", spec_Sum)
    reg("forall", spec_forall)
    reg("exists", spec_exists)
    reg("implies", lambda eng, st, a, b: V.b_implies(eng.truthy(st, a), eng.truthy(st, b)))
    reg("iff", lambda eng, st, a, b: V.cmp("==", eng.truthy(st, a), eng.truthy(st, b)) if False else V.b_and(V.b_implies(eng.truthy(st, a), eng.truthy(st, b)), V.b_implies(eng.truthy(st, b), eng.truthy(st, a))))
    reg("ite", lambda eng, st, c, a, b: _ite(eng, st, c, a, b))
    reg("re", lambda eng, st, z: V.cx_of(eng.deref(st, z)).re)
    reg("im", lambda eng, st, z: V.cx_of(eng.deref(st, z)).im)
    reg("conj", lambda eng, st, z: V.conj(eng.deref(st, z)))
    reg("abs2", lambda eng, st, z: _abs2(eng.deref(st, z)))
    reg("sqrt", lambda eng, st, x: sqrt_of(eng, st, eng.deref(st, x)))
    reg("cosn", lambda eng, st, th, n: cosn(eng, st, eng.deref(st, th), eng.deref(st, n)))
    reg("sinn", lambda eng, st, th, n: sinn(eng, st, eng.deref(st, th), eng.deref(st, n)))
    reg("arcsin", lambda eng, st, x: arcsin_of(eng, st, eng.deref(st, x)))
    reg("angle", lambda eng, st, z: angle_of(eng, st, eng.deref(st, z)))
    reg("log10", lambda eng, st, x: log_of(eng, st, eng.deref(st, x), "log10"))
    reg("ln", lambda eng, st, x: log_of(eng, st, eng.deref(st, x), "ln"))
    reg("exp", lambda eng, st, x: exp_of(eng, st, eng.deref(st, x)))
    reg("power", lambda eng, st, a, b: eng.power(st, eng.deref(st, a), eng.deref(st, b)))
    reg("floor", lambda eng, st, x: V.floor_real(eng.deref(st, x)))
    reg("ceil", lambda eng, st, x: V.ceil_int(eng.deref(st, x)))
    reg("rhu", lambda eng, st, x: V.floor_real(V.add(V.to_real(eng.deref(st, x)), Fraction(1, 2))))
    reg("rhe", lambda eng, st, x: V.round_half_even(eng.deref(st, x)))
    reg("trunc", lambda eng, st, x: V.trunc_int(eng.deref(st, x)))
    reg("real", lambda eng, st, x: V.to_real(eng.deref(st, x)))
    B["pi"] = PI(eng)

    def new_scratch_state():
        from .engine import State

        s_ = State()
        s_.heap = _FallbackHeap()
        return s_

    eng.new_scratch_state = new_scratch_state


def _abs2(z):
    z = V.cx_of(V.as_arith(z))
    return V.add(V.mul(z.re, z.re), V.mul(z.im, z.im))


def _ite(eng, st, c, a, b):
    from .heap import _ite_any

    return _ite_any(eng.truthy(st, c), eng.deref(st, a), eng.deref(st, b))
