"""VC preparation: skolemise the negated goal, unfold definitions at the indices
the VC mentions (spec.saturate), instantiate quantified hypotheses at ground
index terms (trigger-guided), and emit

  full : every hypothesis, quantifiers included   (sat here = genuine counter-model)
  core : quantifier-free instances only           (unsat here is sound: hypotheses were only dropped)

The worker additionally Ackermannises the core (uninterpreted applications ->
fresh constants; again only weakens hypotheses) so that nlsat can be used.
"""
from __future__ import annotations

import itertools

import z3

from . import spec


def has_quant(t):
    st = [t]
    seen = set()
    while st:
        x = st.pop()
        if x.get_id() in seen:
            continue
        seen.add(x.get_id())
        if z3.is_quantifier(x):
            return True
        if z3.is_app(x):
            st.extend(x.children())
    return False


def skolemize(f):
    g = z3.Goal()
    g.add(f)
    r = z3.Tactic("snf")(g)
    if len(r) != 1:
        return [f]
    return list(r[0])


def split_top(f):
    """flatten top-level conjunctions"""
    out = []
    st = [f]
    while st:
        x = st.pop()
        if z3.is_and(x):
            st.extend(x.children())
        else:
            out.append(x)
    return out


def ground_index_terms(forms):
    """{(fname, argpos): [terms]} for Int-sorted ground arguments of uninterpreted applications"""
    occ = {}
    seen = set()

    def visit(t, under_q):
        if t.get_id() in seen:
            return
        seen.add(t.get_id())
        if z3.is_quantifier(t):
            return  # only ground material
        if z3.is_app(t):
            d = t.decl()
            if d.kind() == z3.Z3_OP_UNINTERPRETED and t.num_args() > 0:
                for i, a in enumerate(t.children()):
                    if a.sort().kind() == z3.Z3_INT_SORT:
                        occ.setdefault((d.name(), i), {})[a.get_id()] = a
            for c in t.children():
                visit(c, under_q)

    for f in forms:
        visit(f, False)
    return {k: list(v.values()) for k, v in occ.items()}


def var_positions(body, nvars):
    """for each de-Bruijn var index: set of (fname, argpos) under which it occurs directly"""
    pos = {i: set() for i in range(nvars)}
    seen = set()

    def visit(t):
        if t.get_id() in seen:
            return
        seen.add(t.get_id())
        if z3.is_quantifier(t):
            return
        if z3.is_app(t):
            d = t.decl()
            if d.kind() == z3.Z3_OP_UNINTERPRETED:
                for i, a in enumerate(t.children()):
                    if z3.is_var(a):
                        pos[z3.get_var_index(a)].add((d.name(), i))
                    elif a.sort().kind() == z3.Z3_INT_SORT and z3.is_app(a) and a.num_args() == 2:
                        # k + c  /  k - c : offset triggers
                        x, y = a.arg(0), a.arg(1)
                        if z3.is_var(x) and z3.is_int_value(y):
                            off = y.as_long() if a.decl().kind() == z3.Z3_OP_ADD else (-y.as_long() if a.decl().kind() == z3.Z3_OP_SUB else None)
                            if off is not None:
                                pos[z3.get_var_index(x)].add((d.name(), i, off))
                        elif z3.is_var(y) and z3.is_int_value(x) and a.decl().kind() == z3.Z3_OP_ADD:
                            pos[z3.get_var_index(y)].add((d.name(), i, x.as_long()))
            for c in t.children():
                visit(c)

    visit(body)
    return pos


def instantiate(quants, ground, cap=24, extra_terms=()):
    """instances of forall-hypotheses at ground index terms"""
    occ = ground_index_terms(ground)
    out = []
    for q in quants:
        n = q.num_vars()
        body = q.body()
        pos = var_positions(body, n)
        cands = []
        ok = True
        for vi in range(n):
            # de-Bruijn index vi corresponds to bound variable n-1-vi
            terms = {}
            for p in pos[vi]:
                key = (p[0], p[1])
                off = p[2] if len(p) > 2 else 0
                for t in occ.get(key, []):
                    tt = z3.simplify(t - off) if off else t
                    terms[tt.get_id()] = tt
            for t in extra_terms:
                terms[t.get_id()] = t
            tl = list(terms.values())[:cap]
            if not tl:
                ok = False
                break
            cands.append(tl)
        if not ok:
            continue
        combos = list(itertools.islice(itertools.product(*cands), 200))
        for combo in combos:
            # substitute_vars takes terms for var 0, 1, ... (de-Bruijn order)
            inst = z3.substitute_vars(body, *combo)
            out.append(inst)
    return out


def prepare(eng, ob, inst_rounds=2, level=0):
    hyps = list(ob.hyps) + list(eng.global_facts)
    neg = [] if ob.kind == "cover" else skolemize(z3.Not(ob.goal))
    forms = []
    seen = set()

    def add(f, to):
        for g in split_top(f):
            if g.get_id() in seen or z3.is_true(g):
                continue
            seen.add(g.get_id())
            to.append(g)

    base = []
    for h in hyps:
        add(h, base)
    negs = []
    for f in neg:
        add(f, negs)
    allf = base + negs
    extra = spec.saturate(eng, allf, level=level)
    for e in extra:
        add(e, allf)
    quants = [f for f in allf if z3.is_quantifier(f) and f.is_forall()]
    # implications whose consequent is a forall (from merged branches): guard -> forall
    guarded = [f for f in allf if z3.is_implies(f) and z3.is_quantifier(f.arg(1)) and f.arg(1).is_forall()]
    ground = [f for f in allf if not has_quant(f)]
    inst_all = []
    for _ in range(inst_rounds):
        new = instantiate(quants, ground + inst_all)
        for f in guarded:
            for i in instantiate([f.arg(1)], ground + inst_all):
                new.append(z3.Implies(f.arg(0), i))
        fresh = []
        for i in new:
            for g in split_top(i):
                if g.get_id() not in seen:
                    seen.add(g.get_id())
                    fresh.append(g)
        if not fresh:
            break
        extra2 = spec.saturate(eng, fresh, rounds=2, level=level)
        for e in extra2:
            for g in split_top(e):
                if g.get_id() not in seen:
                    seen.add(g.get_id())
                    fresh.append(g)
        inst_all.extend(fresh)
    full = allf + inst_all
    core = [f for f in full if not has_quant(f)]
    return full, core


def to_smt2(forms):
    s = z3.Solver()
    for f in forms:
        s.add(f)
    return s.to_smt2()
