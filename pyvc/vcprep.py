"""VC preparation: skolemise the negated goal, unfold definitions at the indices
the VC mentions (spec.saturate), instantiate quantified hypotheses at ground
index terms (trigger-guided), and emit

  full : every hypothesis, quantifiers included   (sat here = genuine counter-model)
  core : quantifier-free instances only           (unsat here is sound: hypotheses were only dropped)

The worker additionally Ackermannises the core (uninterpreted applications ->
fresh constants; again only weakens hypotheses) so that nlsat can be used.
"""
from __future__ import annotations

import itertools

import z3

from . import spec


def has_quant(t):
    st = [t]
    seen = set()
    while st:
        x = st.pop()
        if x.get_id() in seen:
            continue
        seen.add(x.get_id())
        if z3.is_quantifier(x):
            return True
        if z3.is_app(x):
            st.extend(x.children())
    return False


def skolemize(f):
    g = z3.Goal()
    g.add(f)
    r = z3.Tactic("snf")(g)
    if len(r) != 1:
        return [f]
    return list(r[0])


def split_top(f):
    """flatten top-level conjunctions"""
    out = []
    st = [f]
    while st:
        x = st.pop()
        if z3.is_and(x):
            st.extend(x.children())
        elif z3.is_implies(x) and z3.is_and(x.arg(1)):
            # g -> (a and b)  ==  (g -> a) and (g -> b): exposes guarded quantifiers
            for c in x.arg(1).children():
                st.append(z3.Implies(x.arg(0), c))
        else:
            out.append(x)
    return out


def ground_index_terms(forms):
    """{(fname, argpos): [terms]} for Int-sorted ground arguments of uninterpreted applications"""
    occ = {}
    seen = set()

    def visit(t, under_q):
        if t.get_id() in seen:
            return
        seen.add(t.get_id())
        if z3.is_quantifier(t):
            return  # only ground material
        if z3.is_app(t):
            d = t.decl()
            if d.kind() == z3.Z3_OP_UNINTERPRETED and t.num_args() > 0:
                opq = "!op" in d.name()  # opaque ghost definition: real-sorted arguments are triggers too
                for i, a in enumerate(t.children()):
                    if a.sort().kind() == z3.Z3_INT_SORT or (opq and a.sort().kind() == z3.Z3_REAL_SORT):
                        occ.setdefault((d.name(), i), {})[a.get_id()] = a
            for c in t.children():
                visit(c, under_q)

    for f in forms:
        visit(f, False)
    return {k: list(v.values()) for k, v in occ.items()}


def var_positions(body, nvars):
    """for each de-Bruijn var index of the outer quantifier: set of (fname, argpos[, offset])
    under which it occurs directly (also inside nested quantifiers, whose binders shift the index)"""
    pos = {i: set() for i in range(nvars)}
    seen = set()

    def visit(t, shift):
        key = (t.get_id(), shift)
        if key in seen:
            return
        seen.add(key)
        if z3.is_quantifier(t):
            visit(t.body(), shift + t.num_vars())
            return
        if z3.is_app(t):
            d = t.decl()
            if d.kind() == z3.Z3_OP_UNINTERPRETED:
                for i, a in enumerate(t.children()):
                    if z3.is_var(a):
                        vi = z3.get_var_index(a) - shift
                        if 0 <= vi < nvars:
                            pos[vi].add((d.name(), i))
                    elif a.sort().kind() == z3.Z3_INT_SORT and z3.is_app(a) and a.num_args() == 2:
                        x, y = a.arg(0), a.arg(1)
                        if z3.is_var(x) and z3.is_int_value(y):
                            off = y.as_long() if a.decl().kind() == z3.Z3_OP_ADD else (-y.as_long() if a.decl().kind() == z3.Z3_OP_SUB else None)
                            vi = z3.get_var_index(x) - shift
                            if off is not None and 0 <= vi < nvars:
                                pos[vi].add((d.name(), i, off))
                        elif z3.is_var(y) and z3.is_int_value(x) and a.decl().kind() == z3.Z3_OP_ADD:
                            vi = z3.get_var_index(y) - shift
                            if 0 <= vi < nvars:
                                pos[vi].add((d.name(), i, x.as_long()))
            for c in t.children():
                visit(c, shift)

    visit(body, 0)
    return pos


def instantiate(quants, ground, cap=14, goal_forms=(), done=None, prio_forms=()):
    """instances of forall-hypotheses at ground index terms (trigger-guided; terms that
    occur in the goal first; at most ``cap`` candidates per bound variable)"""
    occ = ground_index_terms(ground)
    gocc = ground_index_terms(goal_forms)
    gids = set()
    for v in gocc.values():
        for t in v:
            gids.add(t.get_id())
    pids = set()
    for v in ground_index_terms(prio_forms).values():
        for t in v:
            pids.add(t.get_id())
    out = []
    done = done if done is not None else set()
    for q in quants:
        n = q.num_vars()
        body = q.body()
        pos = var_positions(body, n)
        cands = []
        ok = True
        for vi in range(n):
            terms = {}
            for p in pos[vi]:
                key = (p[0], p[1])
                off = p[2] if len(p) > 2 else 0
                for t in occ.get(key, []):
                    tt = z3.simplify(t - off) if off else z3.simplify(t)
                    terms[tt.get_id()] = (tt, 0 if t.get_id() in gids else (1 if t.get_id() in pids else 2))
            tl = [t for t, _ in sorted(terms.values(), key=lambda x: x[1])][:cap]
            if not tl:
                ok = False
                break
            cands.append(tl)
        if not ok:
            continue
        for combo in itertools.islice(itertools.product(*cands), 120):
            key = (q.get_id(),) + tuple(c.get_id() for c in combo)
            if key in done:
                continue
            done.add(key)
            inst = z3.substitute_vars(body, *combo)
            if z3.is_implies(inst) and z3.is_false(z3.simplify(inst.arg(0))):
                continue
            out.append(inst)
    return out


def prepare(eng, ob, inst_rounds=3, level=0):
    hyps = list(ob.hyps) + list(eng.global_facts)
    neg = [] if ob.kind == "cover" else skolemize(z3.Not(ob.goal))
    forms = []
    seen = set()

    def add(f, to):
        for g in split_top(f):
            if g.get_id() in seen or z3.is_true(g):
                continue
            seen.add(g.get_id())
            to.append(g)

    base = []
    for h in hyps:
        add(h, base)
    negs = []
    for f in neg:
        add(f, negs)
    allf = base + negs
    extra = spec.saturate(eng, allf, level=level, goal=(negs if negs else None))
    for e in extra:
        add(e, allf)
    quants = [f for f in allf if z3.is_quantifier(f) and f.is_forall()]
    # implications whose consequent is a forall (from merged branches): guard -> forall
    guarded = [f for f in allf if z3.is_implies(f) and z3.is_quantifier(f.arg(1)) and f.arg(1).is_forall()]
    ground = [f for f in allf if not has_quant(f)]
    inst_all = []
    done_inst = set()
    goal_forms = [g for f in negs for g in split_top(f)]
    for rnd in range(inst_rounds):
        quants_now = quants + [f for f in inst_all if z3.is_quantifier(f) and f.is_forall()]
        guarded_now = guarded + [f for f in inst_all if z3.is_implies(f) and z3.is_quantifier(f.arg(1)) and f.arg(1).is_forall()]
        # candidate terms: the original ground material (and the goal); instances only feed
        # later rounds through the goal-ranked cap, which keeps offset chains from growing
        src = ground + ([f for f in inst_all if not has_quant(f)] if rnd > 0 else [])
        new = instantiate(quants_now, src, cap=(14 if level == 0 else 40), goal_forms=goal_forms, done=done_inst, prio_forms=extra)
        for f in guarded_now:
            for i in instantiate([f.arg(1)], src, cap=(14 if level == 0 else 40), goal_forms=goal_forms, done=done_inst, prio_forms=extra):
                new.append(z3.Implies(f.arg(0), i))
        fresh = []
        for i in new:
            for g in split_top(i):
                if g.get_id() not in seen:
                    seen.add(g.get_id())
                    fresh.append(g)
        if not fresh:
            break
        extra2 = spec.saturate(eng, fresh, rounds=2, level=level, goal=(negs if negs else None))
        for e in extra2:
            for g in split_top(e):
                if g.get_id() not in seen:
                    seen.add(g.get_id())
                    fresh.append(g)
        inst_all.extend(fresh)
    full = allf + inst_all
    core = [f for f in full if not has_quant(f)]
    gf = [g for f in negs for g in split_top(f)] if negs else []
    ob._rels = []
    prev = -1
    for d in (1, 2, 4):
        r = relevant(core, gf, depth=d)
        if r is not None and len(r) != prev:
            ob._rels.append((d, r))
            prev = len(r)
    return full, core


def symbols(f, cache={}):
    """relevance atoms of a formula: uninterpreted constants and ground applications of
    uninterpreted functions (identified by term id, so that A(i) and A(1) are different atoms)"""
    k = f.get_id()
    if k in cache:
        return cache[k]
    out = set()
    st = [f]
    seen = set()
    while st:
        x = st.pop()
        if x.get_id() in seen:
            continue
        seen.add(x.get_id())
        if z3.is_quantifier(x):
            st.append(x.body())
        elif z3.is_app(x):
            if x.decl().kind() == z3.Z3_OP_UNINTERPRETED:
                out.add(z3.simplify(x).get_id() if x.num_args() else x.get_id())
            st.extend(x.children())
    cache[k] = out
    return out


def relevant(core, goal_forms, depth=3, common_frac=0.3):
    """SInE-style cone of influence: hypotheses reachable from the goal through shared
    atoms within ``depth`` steps; atoms occurring in a large fraction of the
    hypotheses do not propagate relevance.  Dropping hypotheses only weakens them."""
    if not goal_forms or len(core) < 12:
        return None
    counts = {}
    for f in core:
        for s_ in symbols(f):
            counts[s_] = counts.get(s_, 0) + 1
    common = {s_ for s_, c in counts.items() if c > max(4, common_frac * len(core))}
    gids = {g.get_id() for g in goal_forms}
    R = set()
    for g in goal_forms:
        R |= symbols(g)
    sel = {}
    for g in goal_forms:
        sel[g.get_id()] = g
    rest = [f for f in core if f.get_id() not in gids]
    for _ in range(depth):
        add = []
        for f in rest:
            if f.get_id() in sel:
                continue
            sy = symbols(f)
            key = sy - common
            if (key and (key & (R - common))) or (not key and sy and sy <= R):
                add.append(f)
        if not add:
            break
        for f in add:
            sel[f.get_id()] = f
            R |= symbols(f)
    # facts over common atoms only (parameter ranges such as N >= 8, fs > 0) are always kept
    for f in rest:
        if f.get_id() not in sel and symbols(f) and symbols(f) <= common and len(str(f)) < 200:
            sel[f.get_id()] = f
    if len(sel) >= len(core):
        return None
    return list(sel.values())


def to_smt2(forms):
    s = z3.Solver()
    for f in forms:
        s.add(f)
    return s.to_smt2()
