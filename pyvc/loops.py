"""Cut-point treatment of loops that carry a sidecar invariant."""
from __future__ import annotations

import ast
from fractions import Fraction

import z3

from . import values as V
from .values import Sym, Cx, Unsupported, VerifError
from .heap import Ref, ListV, DictV, ArrV, ObjV
from .engine import Outcome, NORMAL, _RangeV, _ZipV, _EnumV


def assigned_names(stmts):
    names = set()

    def tgt(t):
        if isinstance(t, ast.Name):
            names.add(t.id)
        elif isinstance(t, (ast.Tuple, ast.List)):
            for e in t.elts:
                tgt(e)
        elif isinstance(t, ast.Starred):
            tgt(t.value)

    def visit(n):
        if isinstance(n, (ast.FunctionDef, ast.Lambda, ast.ClassDef)):
            if isinstance(n, ast.FunctionDef):
                names.add(n.name)
            return
        if isinstance(n, ast.Assign):
            for t in n.targets:
                tgt(t)
        elif isinstance(n, (ast.AugAssign, ast.AnnAssign)):
            tgt(n.target)
        elif isinstance(n, ast.For):
            tgt(n.target)
        elif isinstance(n, ast.NamedExpr):
            tgt(n.target)
        elif isinstance(n, (ast.ListComp, ast.GeneratorExp)):
            return
        for ch in ast.iter_child_nodes(n):
            visit(ch)

    for s in stmts:
        visit(s)
    return names


MUTATING_METHODS = {"append", "extend", "insert", "pop", "clear", "update", "setdefault", "sort", "fill"}


def mutated_names(stmts):
    """names whose referenced heap object is written in the statements"""
    names = set()

    def root(n):
        while isinstance(n, (ast.Subscript, ast.Attribute)):
            n = n.value
        return n.id if isinstance(n, ast.Name) else None

    def visit(n):
        if isinstance(n, (ast.FunctionDef, ast.Lambda, ast.ClassDef)):
            return
        if isinstance(n, ast.Assign):
            for t in n.targets:
                if isinstance(t, (ast.Subscript, ast.Attribute)):
                    r = root(t)
                    if r:
                        names.add(r)
        elif isinstance(n, ast.AugAssign):
            r = root(n.target)
            if r:
                names.add(r)
        elif isinstance(n, ast.Call) and isinstance(n.func, ast.Attribute) and n.func.attr in MUTATING_METHODS:
            r = root(n.func.value)
            if r:
                names.add(r)
        for ch in ast.iter_child_nodes(n):
            visit(ch)

    for s in stmts:
        visit(s)
    return names


def nested_append_index(stmts, name):
    """if every write to ``name`` in the statements is ``name[IDX].append(..)`` with one
    simple index variable, return that variable's name (only element IDX changes)"""
    idx = set()
    ok = [True]

    def root(n):
        while isinstance(n, (ast.Subscript, ast.Attribute)):
            n = n.value
        return n.id if isinstance(n, ast.Name) else None

    def visit(n):
        if isinstance(n, (ast.FunctionDef, ast.Lambda, ast.ClassDef)):
            return
        if isinstance(n, ast.Assign):
            for t in n.targets:
                if isinstance(t, (ast.Subscript, ast.Attribute)) and root(t) == name:
                    ok[0] = False
                if isinstance(t, ast.Name) and t.id == name:
                    ok[0] = False
        elif isinstance(n, ast.AugAssign) and root(n.target) == name:
            ok[0] = False
        elif isinstance(n, ast.Call) and isinstance(n.func, ast.Attribute) and n.func.attr in MUTATING_METHODS and root(n.func.value) == name:
            v = n.func.value
            if n.func.attr == "append" and isinstance(v, ast.Subscript) and isinstance(v.value, ast.Name) and isinstance(v.slice, ast.Name):
                idx.add(v.slice.id)
            else:
                ok[0] = False
        for ch in ast.iter_child_nodes(n):
            visit(ch)

    for s_ in stmts:
        visit(s_)
    if ok[0] and len(idx) == 1:
        return next(iter(idx))
    return None


def havoc_value(eng, st, name, cur, ty=None):
    """fresh value of the same shape as ``cur`` (or of declared type ``ty``)"""
    if ty is not None:
        return fresh_of_type(eng, st, name, ty)
    if isinstance(cur, bool) or (isinstance(cur, Sym) and cur.kind == "bool"):
        return eng.fresh(name, "bool")
    if isinstance(cur, int) or (isinstance(cur, Sym) and cur.kind == "int"):
        return eng.fresh(name, "int")
    if isinstance(cur, Fraction) or (isinstance(cur, Sym) and cur.kind == "real"):
        return eng.fresh(name, "real")
    if isinstance(cur, Cx):
        return eng.fresh(name, "cx")
    if isinstance(cur, tuple):
        return tuple(havoc_value(eng, st, f"{name}.{i}", c) for i, c in enumerate(cur))
    if isinstance(cur, Ref):
        return cur
    if cur is None:
        raise Unsupported(f"loop variable {name!r} is None at loop entry; declare its type in the loop spec")
    if isinstance(cur, ArrV):
        return eng.fresh_array(name, cur.shape, cur.dtype)
    raise Unsupported(f"cannot havoc {name!r} of value {cur!r}")


def fresh_of_type(eng, st, name, ty):
    if ty in ("int", "real", "bool", "cx"):
        return eng.fresh(name, ty)
    if ty.startswith("list[") and ty.endswith("]"):
        return fresh_list(eng, name, ty)
    raise Unsupported(f"type {ty!r}")


def fresh_list(eng, name, ty, nargs=0, outer_idx=()):
    inner = ty[5:-1]
    if inner == "row":
        # rows [index, complex, real x 6] appended by _lpsd_core (by value)
        n_ = eng.fresh(name + ".len", "int")
        fs_ = [eng.fresh_fn(f"{name}.c{j}", 1, "int" if j == 0 else "real") for j in range(9)]

        def fnrow(i):
            ii = V.int_term(i)
            items = [Sym(fs_[0](ii), "int"), Cx(Sym(fs_[1](ii), "real"), Sym(fs_[8](ii), "real"))] + [Sym(fs_[j](ii), "real") for j in range(2, 8)]
            return ListV(items=items)

        return ListV(n=n_, fn=fnrow, etype="row")
    lenf = eng.fresh_fn(name + ".len", len(outer_idx), "int")
    n = Sym(lenf(*[V.int_term(i) for i in outer_idx]), "int") if outer_idx else eng.fresh(name + ".len", "int")
    if inner in ("int", "real", "bool"):
        f = eng.fresh_fn(name + ".el", len(outer_idx) + 1, inner)

        def fn(i, f=f):
            return Sym(f(*[V.int_term(x) for x in outer_idx], V.int_term(i)), inner)

        lv = ListV(n=n, fn=fn, etype=inner)
        lv.len_nonneg = True
        return lv
    if inner.startswith("list["):
        # by-value nested list: element i is itself a list described by functions of i
        lenf2 = eng.fresh_fn(name + ".ilen", len(outer_idx) + 1, "int")
        inner2 = inner[5:-1]
        f2 = eng.fresh_fn(name + ".iel", len(outer_idx) + 2, inner2)

        def fn(i):
            ii = [V.int_term(x) for x in outer_idx] + [V.int_term(i)]
            return ListV(n=Sym(lenf2(*ii), "int"), fn=lambda k: Sym(f2(*ii, V.int_term(k)), inner2), etype=inner2)

        return ListV(n=n, fn=fn, etype=inner)
    raise Unsupported(f"list element type {inner!r}")


def havoc_heap(eng, st, name, ref, ty=None):
    obj = st.heap[ref.loc]
    if isinstance(obj, ListV):
        t = ty or (f"list[{obj.etype}]" if obj.etype else None)
        if t is None:
            # infer from a sample element
            if obj.concrete() and obj.items:
                s = obj.items[0]
                t = "list[int]" if V.is_intlike(s) else "list[real]"
            else:
                raise Unsupported(f"declare element type of list {name!r} in the loop spec")
        nl = fresh_list(eng, name, t)
        st.assume(V.cmp(">=", nl.n, 0))
        st.heap[ref.loc] = nl
        return
    if isinstance(obj, ArrV) and obj.dtype == "obj":
        # object array of by-value integer sequences (SpectrumResult's D)
        lv = fresh_list(eng, name, "list[list[int]]")
        na = ArrV(obj.shape, lambda ix, lv=lv: lv.get(ix[0]), "obj")
        na.bufs = obj.bufs
        st.heap[ref.loc] = na
        return
    if isinstance(obj, ArrV):
        na = eng.fresh_array(name, obj.shape, obj.dtype)
        na.bufs = obj.bufs
        st.heap[ref.loc] = na
        return
    if isinstance(obj, DictV):
        hook = getattr(eng, "havoc_dict_hook", None)
        if hook and hook(eng, st, name, ref, obj, ty):
            return
        d = {}
        for k, v in obj.d.items():
            d[k] = havoc_value(eng, st, f"{name}[{k}]", v)
        st.heap[ref.loc] = DictV(d)
        return
    if isinstance(obj, ObjV):
        raise Unsupported(f"havoc of object {name!r}")
    raise Unsupported(f"havoc of {obj!r}")


def eval_clauses(eng, st, fid, clauses, extra=None):
    """evaluate contract clauses (label, text) in ghost mode -> [(label, bool value)]"""
    from .contract import eval_text

    out = []
    for label, text in clauses:
        out.append((label, eval_text(eng, st, fid, text, extra)))
    return out


from .unitdef import norm_clauses  # noqa: E402


def register_cuts(eng, body, cuts):
    """block contracts: statements of ``body`` (source order) whose text is c["at"] (a text or a list of
    alternatives, the first that occurs is used); "occurrence" picks one of several equal statements"""
    if getattr(eng, "cuts", None) is None:
        eng.cuts, eng.cuts_hit = {}, set()
    stmts = sorted((n for b_ in body for n in ast.walk(b_) if isinstance(n, ast.stmt)), key=lambda n: (n.lineno, n.col_offset))
    texts = {}
    for n in stmts:
        try:
            texts.setdefault(ast.unparse(n), []).append(n)
        except Exception:
            pass
    for clabel, c in cuts.items():
        ats = c["at"] if isinstance(c["at"], (list, tuple)) else [c["at"]]
        nodes = next((texts[a] for a in ats if a in texts), [])
        if c.get("occurrence") is not None:
            nodes = nodes[c["occurrence"] : c["occurrence"] + 1]
        for n in nodes:
            eng.cuts[id(n)] = (clabel, c["assert"], list(c.get("havoc", [])), list(c.get("havoc_int_valued", [])))


def cut_loop(eng, node, st, fid, spec, kind, iterv=None):
    lab = spec.get("label") or f"loop{eng.loop_ord.get(id(node))}"
    inv = norm_clauses(spec.get("inv"))
    types = spec.get("types", {})
    outs = []

    # --- iteration scheme -----------------------------------------------------
    if kind == "for":
        if isinstance(iterv, _RangeV):
            lo, hi, step = iterv.lo, iterv.hi, iterv.step
            if not isinstance(step, int) or step < 1:
                raise Unsupported("range step must be a positive constant")
            getter = lambda i: i
            pos_lo, pos_hi = lo, hi
        else:
            n, g = eng.sym_iter(st, iterv)
            lo, hi, step = 0, n, 1
            getter = g
        idxname = spec.get("index", "_i")
    else:
        lo = hi = step = None

    def set_target(s, i):
        if kind == "for":
            eng.assign(node.target, getter(i), s, fid)
            eng.setvar(s, fid, "_i", i)

    body_assigned = assigned_names(node.body)
    body_mutated = mutated_names(node.body)
    # ghost snapshots pre_<name> of every container the body writes (by value)
    pres = {}
    for name in sorted(body_mutated):
        f_ = fid
        while f_ is not None:
            fr_ = st.frames[f_]
            if name in fr_["vars"]:
                cur_ = fr_["vars"][name]
                if isinstance(cur_, Ref):
                    pres["pre_" + name] = st.heap[cur_.loc]
                break
            f_ = fr_["parent"]
    lvl = spec.get("label") or "L"
    for k_, v_ in pres.items():
        eng.setvar(st, fid, k_ + "__" + str(eng.loop_ord.get(id(node))), v_)
        eng.setvar(st, fid, k_, v_)
    # --- 1. invariant holds on entry -------------------------------------------
    if kind == "for":
        set_target(st, lo)
    for label, val in eval_clauses(eng, st, fid, inv):
        eng.oblige(st, "inv_init", f"{lab}.{label}", val)

    # --- 2. havoc ---------------------------------------------------------------
    body_assigned = assigned_names(node.body)
    body_mutated = mutated_names(node.body)
    extra_h = set(spec.get("havoc", []))
    frame = st.frames[fid]["vars"]

    def find_var(name):
        f = fid
        while f is not None:
            fr = st.frames[f]
            if name in fr["vars"]:
                return fr["vars"], fr["vars"][name]
            f = fr["parent"]
        return None, None

    tgt_names = assigned_names([ast.Assign(targets=[node.target], value=ast.Constant(0))]) if kind == "for" else set()
    for name in sorted(body_assigned | extra_h):
        if name in tgt_names:
            continue
        vars_, cur = find_var(name)
        if vars_ is None:
            if name in types:
                frame[name] = fresh_of_type(eng, st, name, types[name])
            continue  # first assigned inside the body
        if isinstance(cur, Ref):
            # rebinding of a reference-valued variable inside the loop
            if name in types:
                vars_[name] = fresh_of_type(eng, st, name, types[name])
            elif name not in body_mutated:
                # value is re-created each iteration before use (checked by execution)
                pass
            continue
        if cur is None and name not in types:
            # assigned in the body before any use (e.g. temporaries): leave unbound
            continue
        vars_[name] = havoc_value(eng, st, name, cur, types.get(name))
    for name in sorted(body_mutated):
        vars_, cur = find_var(name)
        if isinstance(cur, Ref):
            ix = nested_append_index(node.body, name)
            obj = st.heap[cur.loc]
            if ix is not None and ix not in body_assigned and isinstance(obj, ListV) and ix not in tgt_names:
                # only element [ix] of the outer list is written: frame the rest
                _, ixv = find_var(ix)
                ty = types.get(name) or (f"list[list[{obj.get(ixv).etype or 'int'}]]")
                inner = fresh_list(eng, name + ".at", ty[5:-1])
                st.assume(V.cmp(">=", inner.n, 0))
                st.heap[cur.loc] = obj.set(ixv, inner)
                continue
            havoc_heap(eng, st, name, cur, types.get(name))
    for h in spec.get("havoc_refs", []):
        h(eng, st, fid)

    # --- 3. exit path (invariant at the virtual index after the last iteration) -------
    sx = st.copy()
    if kind == "for":
        if step == 1:
            if isinstance(hi, int) and isinstance(lo, int):
                e = max(hi, lo)
            else:
                # is hi < lo possible here?
                probe = sx.copy()
                probe.assume(V.cmp("<", hi, lo))
                e = hi if not eng.feasible(probe) else V.ite(V.cmp(">=", hi, lo), hi, lo)
            set_target(sx, e)
        else:
            e = eng.fresh(spec.get("index_base", "it") + "x", "int")
            set_target(sx, e)
            sx.assume(V.cmp(">=", e, hi))
            sx.assume(V.cmp("==", V.mod(V.sub(e, lo), step), 0))
            sx.assume(V.b_or(V.cmp("<", V.sub(e, step), hi), V.cmp("==", e, lo)))
        for label, val in eval_clauses(eng, sx, fid, inv):
            sx.assume(val)
        exit_states = [sx]
    else:
        for label, val in eval_clauses(eng, sx, fid, inv):
            sx.assume(val)
        exit_states = []
        for s1, tv in eng.eval_fork(node.test, sx, fid):
            c = eng.truthy(s1, tv)
            s1.assume(V.b_not(c))
            exit_states.append(s1)
    for s1 in exit_states:
        if eng.feasible(s1):
            if node.orelse:
                outs.extend(eng.exec_block(node.orelse, s1, fid))
            else:
                outs.append((s1, NORMAL))

    if kind == "for":
        i = eng.fresh(spec.get("index_base", "it"), "int")
        set_target(st, i)
        st.assume(V.cmp("<=", lo, i))
        if step != 1:
            st.assume(V.cmp("==", V.mod(V.sub(i, lo), step), 0))
    for label, val in eval_clauses(eng, st, fid, inv):
        st.assume(val)
        st.name_hyp(f"inv:{lab}.{label}", val)

    # --- 4. body preserves the invariant -------------------------------------------
    sb = st
    if kind == "for":
        sb.assume(V.cmp("<", i, hi))
        body_states = [sb]
    else:
        body_states = []
        for s1, tv in eng.eval_fork(node.test, sb, fid):
            c = eng.truthy(s1, tv)
            s1.assume(c)
            body_states.append(s1)
    for s1 in body_states:
        eng.cover(s1, f"{lab}.body")
        var0 = None
        if spec.get("variant"):
            from .contract import eval_text

            var0 = eval_text(eng, s1, fid, spec["variant"])
            dec = eval_text(eng, s1, fid, spec.get("decrease", "1"))
            eng.oblige(s1, "variant", f"{lab}.decrease_positive", V.cmp(">", dec, 0))
            eng.oblige(s1, "variant", f"{lab}.bounded", V.cmp(">", var0, 0))
        pre_hook = spec.get("body_pre")
        if pre_hook:
            pre_hook(eng, s1, fid)
        saved_probes = (getattr(eng, "probes", None), getattr(eng, "probes_hit", None))
        if spec.get("probes"):
            # ghost snapshots of the loop variables after statements identified by their text
            eng.probes = {txt: (label, sorted(body_assigned)) for label, txt in spec["probes"].items()}
            eng.probes_hit = set()
        saved_cuts = (dict(getattr(eng, "cuts", None) or {}), set(getattr(eng, "cuts_hit", None) or ()))
        if spec.get("cuts"):
            register_cuts(eng, node.body, spec["cuts"])
        try:
            body_outs = eng.exec_block(node.body, s1, fid)
        finally:
            if spec.get("cuts"):
                missing_cuts = set(spec["cuts"]) - eng.cuts_hit
                eng.cuts, eng.cuts_hit = saved_cuts[0], saved_cuts[1] | (eng.cuts_hit - set(spec["cuts"]))
        if spec.get("cuts") and missing_cuts:
            # a block contract is a proof hint tied to the shape of the body: without it the
            # remaining obligations are still generated (and may stay undecided)
            eng.notes = getattr(eng, "notes", [])
            eng.notes.append(f"{eng.unit}: loop {lab}: cut statement(s) {sorted(missing_cuts)} not found in the loop body (hint skipped)")
        if spec.get("probes"):
            missing = set(spec["probes"]) - eng.probes_hit
            eng.probes, eng.probes_hit = saved_probes
            if missing:
                raise Unsupported(f"loop {lab}: probe statement(s) {sorted(missing)} not found in the loop body")
        for s2, oc in body_outs:
            if oc.kind in ("normal", "continue"):
                senv = None
                if spec.get("step_env"):
                    from .contract import eval_text as _et

                    senv = {k_: _et(eng, s2, fid, t_) for k_, t_ in spec["step_env"].items()}
                for label, val in eval_clauses(eng, s2, fid, norm_clauses(spec.get("step_lemmas")), senv):
                    eng.oblige(s2, "lemma", f"{lab}.{label}", val)
                if kind == "for":
                    set_target(s2, V.add(i, step))
                for label, val in eval_clauses(eng, s2, fid, inv):
                    eng.oblige(s2, "inv_step", f"{lab}.{label}", val)
                if var0 is not None:
                    from .contract import eval_text

                    var1 = eval_text(eng, s2, fid, spec["variant"])
                    eng.oblige(s2, "variant", f"{lab}.decreases", V.cmp("<=", var1, V.sub(var0, dec)))
            elif oc.kind == "break":
                outs.append((s2, NORMAL))
            else:
                outs.append((s2, oc))
    return outs
