"""Heap objects and compound values of the symbolic executor."""
from __future__ import annotations

import z3

from .values import (
    Sym,
    Cx,
    Unsupported,
    VerifError,
    fresh_uid,
    is_concrete_num,
    ite,
    b_and,
    cmp,
    mk,
)


class Ref:
    """reference to a mutable heap object"""

    __slots__ = ("loc",)

    def __init__(self, loc):
        self.loc = loc

    def __repr__(self):
        return f"Ref({self.loc})"


class ListV:
    """Python list, by value: length n (int or Sym int) and element function.

    ``items`` is set when the length is concrete (then fn is derived from it).
    """

    def __init__(self, n=None, fn=None, items=None, etype=None):
        if items is not None:
            self.items = list(items)
            self.n = len(self.items)
            self.fn = None
        else:
            self.items = None
            self.n = n
            self.fn = fn
        self.etype = etype

    def concrete(self):
        return self.items is not None

    def get(self, i):
        if self.items is not None:
            if isinstance(i, int):
                return self.items[i]
            # symbolic index into a concrete list: ite chain over scalars
            if not self.items:
                return 0  # element of an empty list: never read under a true guard
            out = self.items[-1]
            for k in range(len(self.items) - 2, -1, -1):
                out = _ite_any(cmp("==", i, k), self.items[k], out)
            return out
        return self.fn(i)

    def append(self, v):
        if self.items is not None:
            return ListV(items=self.items + [v], etype=self.etype)
        n, fn = self.n, self.fn
        from .values import add

        return ListV(n=add(n, 1), fn=lambda i: _ite_any(cmp("==", i, n), v, fn(i)), etype=self.etype)

    def set(self, i, v):
        if self.items is not None and isinstance(i, int):
            it = list(self.items)
            it[i] = v
            return ListV(items=it, etype=self.etype)
        old = self
        return ListV(n=self.n, fn=lambda k: _ite_any(cmp("==", k, i), v, old.get(k)), etype=self.etype)

    def __repr__(self):
        if self.items is not None:
            return f"ListV({self.items})"
        return f"ListV(n={self.n})"


def _ite_any(c, a, b):
    """if-then-else over scalars, complex and by-value lists"""
    if isinstance(c, bool):
        return a if c else b
    if isinstance(a, ListV) or isinstance(b, ListV):
        if not (isinstance(a, ListV) and isinstance(b, ListV)):
            raise Unsupported("ite list/non-list")
        return ListV(n=ite(c, a.n, b.n), fn=lambda k: _ite_any(c, a.get(k), b.get(k)), etype=a.etype or b.etype)
    if isinstance(a, ArrV) or isinstance(b, ArrV):
        if not (isinstance(a, ArrV) and isinstance(b, ArrV)):
            raise Unsupported("ite array/non-array")
        shape = tuple(ite(c, x, y) for x, y in zip(a.shape, b.shape))
        # may-alias: the merged value can share a buffer with either branch's value
        return ArrV(shape, lambda idx: _ite_any(c, a.fn(idx), b.fn(idx)), a.dtype, bufs=(set(a.bufs) | set(b.bufs)))
    if a is None and b is None:
        return None
    if a is b:
        return a
    return ite(c, a, b)


class DictV:
    def __init__(self, d=None):
        self.d = dict(d or {})

    def __repr__(self):
        return f"DictV({list(self.d)})"


class ArrV:
    """NumPy array: shape tuple and a lazily evaluated element function."""

    def __init__(self, shape, fn, dtype="real", bufs=None, name=None):
        self.shape = tuple(shape)
        self.fn = fn  # tuple(index values) -> scalar value
        self.dtype = dtype  # 'int' | 'real' | 'cx' | 'bool' | 'obj'
        self.uid = fresh_uid()
        self.bufs = bufs if bufs is not None else frozenset([self.uid])
        self.name = name

    @property
    def ndim(self):
        return len(self.shape)

    def at(self, *idx):
        return self.fn(tuple(idx))

    def __repr__(self):
        return f"ArrV({self.name or self.uid}, shape={self.shape}, {self.dtype})"


class ObjV:
    def __init__(self, cls, fields=None):
        self.cls = cls
        self.fields = dict(fields or {})

    def __repr__(self):
        return f"ObjV({self.cls})"


class Closure:
    """user-level function value: nested def, lambda, or module function"""

    def __init__(self, node, frame, module=None, name=None, ghost=False):
        self.node = node  # ast.FunctionDef | ast.Lambda
        self.frame = frame  # defining frame (dict) or None
        self.module = module
        self.name = name or getattr(node, "name", "<lambda>")
        self.ghost = ghost

    def __repr__(self):
        return f"Closure({self.name})"


class Builtin:
    def __init__(self, name, fn, wants_state=False):
        self.name = name
        self.fn = fn
        self.wants_state = wants_state

    def __repr__(self):
        return f"Builtin({self.name})"


class ModuleV:
    def __init__(self, name, attrs=None):
        self.name = name
        self.attrs = attrs or {}

    def __repr__(self):
        return f"ModuleV({self.name})"


class BoundMethod:
    def __init__(self, obj, name):
        self.obj = obj
        self.name = name

    def __repr__(self):
        return f"BoundMethod({self.obj!r}.{self.name})"


class SliceV:
    def __init__(self, lo, hi, step):
        self.lo, self.hi, self.step = lo, hi, step


class ExcV:
    def __init__(self, cls, args=()):
        self.cls = cls
        self.args = args

    def __repr__(self):
        return f"ExcV({self.cls})"
