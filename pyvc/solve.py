"""Discharge obligations: z3 (Python API, in worker processes) first, the cvc5
binary on whatever z3 leaves unknown (and on everything in the thorough tier)."""
from __future__ import annotations

import multiprocessing as mp
import os
import re
import subprocess
import tempfile
import time

import z3


def to_smt2(formulas, logic=None):
    s = z3.Solver()
    for f in formulas:
        s.add(f)
    return s.to_smt2()


def _has_quant(t):
    st = [t]
    seen = set()
    while st:
        x = st.pop()
        if x.get_id() in seen:
            continue
        seen.add(x.get_id())
        if z3.is_quantifier(x):
            return True
        if z3.is_app(x):
            st.extend(x.children())
    return False


def ackermannize(assertions):
    """uninterpreted applications -> fresh constants (drops congruence: only weakens)"""
    cache = {}
    memo = {}

    def ack(t):
        i = t.get_id()
        if i in memo:
            return memo[i]
        r = t
        if z3.is_app(t) and t.num_args() > 0:
            ch = [ack(c) for c in t.children()]
            d = t.decl()
            if d.kind() == z3.Z3_OP_UNINTERPRETED:
                key = (d.name(), tuple(c.get_id() for c in ch))
                if key not in cache:
                    cache[key] = z3.Const(f"ack!{len(cache)}", t.sort())
                r = cache[key]
            else:
                r = d(*ch)
        memo[i] = r
        return r

    return [ack(a) for a in assertions]


def euf_abstract(assertions):
    """nonlinear products, divisions by non-constants, floors and powers become
    uninterpreted functions of their (abstracted) arguments: the result is linear
    arithmetic + EUF.  Only drops arithmetic facts, so unsat here is sound."""
    memo = {}
    ufs = {}

    def uf(name, sorts, rng):
        key = (name, tuple(str(x) for x in sorts), str(rng))
        if key not in ufs:
            ufs[key] = z3.Function(f"abs!{name}!{len(ufs)}", *sorts, rng)
        return ufs[key]

    def isnum(t):
        return z3.is_int_value(t) or z3.is_rational_value(t)

    def go(t):
        i = t.get_id()
        if i in memo:
            return memo[i]
        r = t
        if z3.is_quantifier(t):
            r = t
        elif z3.is_app(t) and t.num_args() > 0:
            ch = [go(c) for c in t.children()]
            k = t.decl().kind()
            if k == z3.Z3_OP_MUL:
                nn = [c for c in ch if not isnum(c)]
                if len(nn) >= 2:
                    # keep numeric coefficient outside, abstract the monomial (sorted for commutativity)
                    nums = [c for c in ch if isnum(c)]
                    nn = sorted(nn, key=lambda c: c.get_id())
                    f = uf("mul%d" % len(nn), [c.sort() for c in nn], t.sort())
                    r = f(*nn)
                    for c in nums:
                        r = c * r
                else:
                    r = t.decl()(*ch)
            elif k == z3.Z3_OP_DIV and not isnum(ch[1]):
                r = uf("div", [c.sort() for c in ch], t.sort())(*ch)
            elif k in (z3.Z3_OP_IDIV, z3.Z3_OP_MOD, z3.Z3_OP_REM) and not isnum(ch[1]):
                r = uf("idiv%d" % k, [c.sort() for c in ch], t.sort())(*ch)
            elif k == z3.Z3_OP_TO_INT:
                r = uf("toint", [ch[0].sort()], t.sort())(ch[0])
            elif k == z3.Z3_OP_POWER:
                r = uf("pow", [c.sort() for c in ch], t.sort())(*ch)
            else:
                r = t.decl()(*ch)
        memo[i] = r
        return r

    return [go(a) for a in assertions]


def _model_dict(m):
    model = {}
    for d in m.decls():
        try:
            model[d.name()] = str(m[d])[:600]
        except Exception:
            pass
    return model


def _z3_worker(task):
    """task = (name, full_smt2, core_smt2, timeout_ms, seed, mode)
    mode 'prove': looking for unsat; mode 'cover': looking for sat."""
    name, full, core, timeout_ms, seed, mode = task
    t0 = time.time()
    log = []
    try:
        ctx = z3.Context()
        model = None
        # 1. Ackermannised quantifier-free core with nlsat, 2. core with the SMT core
        if core is not None:
            s0 = z3.Solver(ctx=ctx)
            s0.from_string(core)
            asserts = [z3.simplify(a) for a in s0.assertions()]
            if mode in ("prove", "prove-only"):
                try:
                    ea = euf_abstract(asserts)
                    se = z3.Solver(ctx=ctx)
                    se.set("timeout", 3000)
                    for a in ea:
                        se.add(a)
                    re_ = se.check()
                    log.append(("euf-abstraction", str(re_), round(time.time() - t0, 3)))
                    if re_ == z3.unsat:
                        return name, "unsat", time.time() - t0, None, "z3-smt(EUF abstraction of nonlinear/floor terms, qf core)", log
                except z3.Z3Exception as e:
                    log.append(("euf-abstraction", "error:" + str(e)[:80], round(time.time() - t0, 3)))
                try:
                    g0 = z3.Goal(ctx=ctx)
                    for a in asserts:
                        g0.add(a)
                    try:
                        sub = z3.Then(z3.Tactic("simplify", ctx), z3.Tactic("solve-eqs", ctx), z3.Tactic("simplify", ctx), ctx=ctx)(g0)
                        pre = list(sub[0]) if len(sub) == 1 else asserts
                    except z3.Z3Exception:
                        pre = asserts
                    ak = ackermannize(pre)
                    s1 = z3.Tactic("qfnra-nlsat", ctx).solver()
                    s1.set("timeout", int(max(1000, timeout_ms // 4)))
                    for a in ak:
                        s1.add(a)
                    r1 = s1.check()
                    log.append(("nlsat-core", str(r1), round(time.time() - t0, 3)))
                    if r1 == z3.unsat:
                        return name, "unsat", time.time() - t0, None, "z3-nlsat(ackermannised qf core)", log
                except z3.Z3Exception as e:
                    log.append(("nlsat-core", "error:" + str(e)[:80], round(time.time() - t0, 3)))
            s2 = z3.Solver(ctx=ctx)
            s2.set("timeout", int(max(1000, timeout_ms // 3)) if mode == "prove" else 3000)
            s2.set("random_seed", int(seed) % 1000)
            for a in asserts:
                s2.add(a)
            r2 = s2.check()
            log.append(("smt-core", str(r2), round(time.time() - t0, 3)))
            if r2 == z3.unsat:
                return name, "unsat", time.time() - t0, None, "z3-smt(qf core)", log
            if r2 == z3.sat:
                model = _model_dict(s2.model())
                if full is None and mode != "prove-only":
                    return name, "sat", time.time() - t0, model, "z3-smt(qf core = full)", log
            if r2 == z3.unknown and mode == "prove":
                # model search under small bounds on the integer unknowns: a model found
                # under extra constraints is a model of the core (refutation side only)
                s2b = z3.Solver(ctx=ctx)
                s2b.set("timeout", 6000)
                for a in asserts:
                    s2b.add(a)
                ints = set()
                stack = list(asserts)
                seen_ = set()
                while stack:
                    x_ = stack.pop()
                    if x_.get_id() in seen_:
                        continue
                    seen_.add(x_.get_id())
                    if z3.is_const(x_) and x_.decl().kind() == z3.Z3_OP_UNINTERPRETED and x_.sort().kind() == z3.Z3_INT_SORT:
                        ints.add(x_)
                    elif z3.is_app(x_):
                        stack.extend(x_.children())
                for v_ in ints:
                    s2b.add(v_ >= -40, v_ <= 40)
                r2b = s2b.check()
                log.append(("smt-core-bounded-ints", str(r2b), round(time.time() - t0, 3)))
                if r2b == z3.sat:
                    model = _model_dict(s2b.model())
                    if full is None and mode != "prove-only":
                        return name, "sat", time.time() - t0, model, "z3-smt(qf core = full, model search with |int| <= 40)", log
        if mode == "prove-only":
            return name, "unknown", time.time() - t0, model, "rel undecided", log
        if mode == "cover":
            # vacuity guard: only an unsat answer matters (core unsat => hypotheses contradictory)
            return name, ("sat" if model is not None else "unknown"), time.time() - t0, None, "cover", log
        if full is not None:
            s3 = z3.Solver(ctx=ctx)
            s3.set("timeout", int(timeout_ms))
            s3.set("random_seed", int(seed) % 1000)
            s3.from_string(full)
            r3 = s3.check()
            log.append(("smt-full", str(r3), round(time.time() - t0, 3)))
            if r3 == z3.unsat:
                return name, "unsat", time.time() - t0, None, "z3-smt(full)", log
            if r3 == z3.sat:
                return name, "sat", time.time() - t0, _model_dict(s3.model()), "z3-smt(full)", log
            if model is not None:
                return name, "sat-core", time.time() - t0, model, "z3-smt(qf core only; full unknown: %s)" % s3.reason_unknown(), log
            return name, "unknown", time.time() - t0, None, s3.reason_unknown(), log
        return name, "unknown", time.time() - t0, model, "core undecided", log
    except Exception as e:  # pragma: no cover
        return name, "error", time.time() - t0, None, repr(e), log


def run_cvc5(smt2, timeout_s):
    txt = smt2
    if "(set-logic" not in txt:
        txt = "(set-logic ALL)\n" + txt
    with tempfile.NamedTemporaryFile("w", suffix=".smt2", delete=False, dir=os.environ.get("PYVC_TMP", None)) as fh:
        fh.write(txt)
        path = fh.name
    try:
        t0 = time.time()
        p = subprocess.run(["/usr/bin/cvc5", f"--tlimit={int(timeout_s * 1000)}", "--nl-ext-tplanes", path], capture_output=True, text=True, timeout=timeout_s + 10)
        out = (p.stdout or "").strip().splitlines()
        res = out[0].strip() if out else "unknown"
        if res not in ("sat", "unsat", "unknown"):
            res = "unknown"
        return res, time.time() - t0, (p.stderr or "")[:300]
    except subprocess.TimeoutExpired:
        return "unknown", timeout_s, "timeout"
    finally:
        try:
            os.unlink(path)
        except OSError:
            pass


def _cvc5_worker(task):
    name, smt2, timeout_s = task
    r, t, err = run_cvc5(smt2, timeout_s)
    return name, r, t, err


_POOL = None


def pool(n=None):
    global _POOL
    if _POOL is None:
        n = n or int(os.environ.get("PYVC_JOBS", "14"))
        _POOL = mp.get_context("fork").Pool(n)
    return _POOL


def close_pool():
    global _POOL
    if _POOL is not None:
        _POOL.terminate()
        _POOL = None


def discharge(tasks, timeout_ms=20000, cvc5_all=False, cvc5_timeout_s=30, seed=0):
    """tasks: list of (name, full_smt2, core_smt2_or_None, mode).
    Returns {name: dict(status, backend, time, model, reason, log)}."""
    p = pool()
    out = {}
    z3tasks = [(n, f, c, timeout_ms, seed, mode) for n, f, c, mode in tasks]
    for name, res, t, model, backend, log in p.imap_unordered(_z3_worker, z3tasks, chunksize=1):
        out[name] = dict(status=res, backend=backend if res in ("unsat", "sat", "sat-core") else "z3", time=t, model=model, reason=backend, log=log)
    full = {n: (c if c is not None and f is None else f) for n, f, c, mode in tasks}
    core = {n: c for n, f, c, mode in tasks}
    mode = {n: m for n, f, c, m in tasks}
    again = [n for n, r in out.items() if r["status"] in ("unknown", "error", "sat-core") and mode[n] == "prove"]
    if cvc5_all:
        again = [n for n in out if mode[n] == "prove"]
    if again:
        ctasks = [(n, core[n] if core[n] is not None else full[n], cvc5_timeout_s) for n in again]
        for name, res, t, err in p.imap_unordered(_cvc5_worker, ctasks, chunksize=1):
            prev = out[name]
            prev["cvc5"] = res
            prev["cvc5_time"] = t
            if res == "unsat":
                if prev["status"] in ("unknown", "error", "sat-core"):
                    # unsat of the quantifier-free core is sound for the full problem
                    prev["status"] = "unsat"
                    prev["backend"] = "cvc5(qf core)"
                    prev["time"] += t
            elif res == "sat" and prev["status"] == "unsat" and core[name] is None:
                prev["disagree"] = True
    return out


# ---------------------------------------------------------------------------------------------
# parallel preparation + solving: workers are forked after symbolic execution, so they inherit
# the engine (closure registry for definitional unfolding) and the obligation list.

_G = {}


def _ob_worker(task):
    idx, level, timeout_ms, seed, use_cvc5, cvc5_timeout_s = task
    eng, obs = _G["eng"], _G["obs"]
    ob = obs[idx]
    dl = _G.get("deadline")
    if dl is not None and time.time() > dl and ob.kind != "cover":
        # the property's solving budget is used up (only reached when many obligations are hard,
        # i.e. on changed code): undecided, never a verdict
        return idx, dict(status="unknown", backend="z3", time=0.0, model=None, reason="time budget of this check exhausted", log=[("budget", "unknown", 0.0)], prep=0.0)
    full_h = (ob.meta or {}).get("full_hyps")
    # a cited subset either closes quickly or not at all: short budget, no second solver
    _, r = _solve_one(eng, ob, idx, level, (min(timeout_ms, 6000) if full_h is not None else timeout_ms), seed, (None if full_h is not None else use_cvc5), cvc5_timeout_s)
    if full_h is not None and r["status"] != "unsat":
        # proof by citation failed on the cited subset: that decides nothing; try all hypotheses
        import copy

        ob3 = copy.copy(ob)
        ob3.hyps = list(full_h)
        ob3.meta = {k: v for k, v in ob.meta.items() if k not in ("full_hyps", "cited")}
        if hasattr(ob3, "_rels"):
            del ob3._rels
        _, r3 = _solve_one(eng, ob3, idx, level, timeout_ms, seed, use_cvc5, cvc5_timeout_s)
        r3["time"] = r3.get("time", 0.0) + r.get("time", 0.0)
        r3["log"] = list(r.get("log", [])) + [("cited-subset-insufficient:all-hypotheses", r3["status"], 0.0)] + list(r3.get("log", []))
        r = r3
        ob = ob3
    hidden = (ob.meta or {}).get("hidden_axioms")
    if hidden and r["status"] in ("sat", "sat-core"):
        # the model may only exist because opaque ghost definitions were hidden: decide again with them
        import copy

        ob2 = copy.copy(ob)
        ob2.hyps = list(ob.hyps) + list(hidden)
        ob2.meta = {k: v for k, v in ob.meta.items() if k != "hidden_axioms"}
        if hasattr(ob2, "_rels"):
            del ob2._rels
        _, r2 = _solve_one(eng, ob2, idx, level, timeout_ms, seed, use_cvc5, cvc5_timeout_s)
        r2["time"] = r2.get("time", 0.0) + r.get("time", 0.0)
        r2["log"] = list(r.get("log", [])) + [("reveal-all-opaque-definitions", r2["status"], 0.0)] + list(r2.get("log", []))
        r = r2
    return idx, r


def _solve_one(eng, ob, idx, level, timeout_ms, seed, use_cvc5, cvc5_timeout_s):
    from . import vcprep

    t0 = time.time()
    if ob.kind != "cover" and z3.is_true(ob.goal):
        return idx, dict(status="unsat", backend="syntactic (goal evaluates to True)", time=0.0, model=None, reason="trivial", log=[], prep=0.0)
    level = max(level, int((ob.meta or {}).get("level", 0)))
    try:
        full, core = vcprep.prepare(eng, ob, level=level)
        has_q = len(full) != len(core)
        smt_full = vcprep.to_smt2(full) if has_q else None
        smt_core = vcprep.to_smt2(core)
        rels = [(d, vcprep.to_smt2(r), len(r)) for d, r in getattr(ob, "_rels", [])]
    except Exception as e:
        import traceback

        return idx, dict(status="error", backend="prep", time=time.time() - t0, model=None, reason=repr(e) + traceback.format_exc()[-800:], log=[], prep=time.time() - t0)
    prep = time.time() - t0
    mode = "prove" if ob.kind != "cover" else "cover"
    pre_log = []
    cand_model = None
    if mode == "prove":
        # cone-of-influence subsets first (unsat of a subset of the hypotheses is sound)
        tspent = 0.0
        for d_, smt_rel, nrel in rels:
            n1, r1, t1, m1, b1, l1 = _z3_worker((ob.name, None, smt_rel, max(3000, timeout_ms // 4), seed, "prove-only"))
            tspent += t1
            pre_log += [("rel%d:" % d_ + a, b, c) for a, b, c in l1]
            if r1 == "unsat":
                return idx, dict(status="unsat", backend=b1 + " [cone of influence depth %d: %d of %d hypotheses]" % (d_, nrel, len(core)), time=tspent, model=None, reason=b1, log=pre_log, prep=prep)
            if m1 is not None and cand_model is None:
                cand_model = m1  # model of a *subset* of the hypotheses: a candidate, to be replayed
    name, res, t, model, backend, log = _z3_worker((ob.name, smt_full, smt_core, timeout_ms, seed, mode))
    log = pre_log + log
    if res in ("unknown", "error") and cand_model is not None:
        res, model, backend = "sat-core", cand_model, "z3-smt(model of a cone-of-influence subset; candidate only)"
    if res == "sat" and mode == "prove" and _PARTIAL_UF.search(smt_core or ""):
        # the VC mentions mathematical functions that are only partially axiomatised (sums, powers, logarithms,
        # trigonometric functions, arcsin, angle): a model may give them impossible values, so it is a candidate
        # to be replayed on the real code, never a refutation by itself
        res, backend = "sat-core", backend + " [model of a VC with partially axiomatised functions: candidate only]"
    r = dict(status=res, backend=backend if res in ("unsat", "sat", "sat-core") else "z3", time=t, model=model, reason=backend, log=log, prep=prep)
    if mode == "prove" and (res in ("unknown", "error", "sat-core") or use_cvc5 == "all") and use_cvc5:
        cres, ct, err = run_cvc5(smt_core, cvc5_timeout_s)
        r["cvc5"] = cres
        r["cvc5_time"] = ct
        if cres == "unsat" and res != "unsat":
            r["status"] = "unsat"
            r["backend"] = "cvc5(qf core)"
            r["time"] += ct
        elif cres == "sat" and res == "unsat" and not has_q:
            r["disagree"] = True
    if r["status"] != "unsat":
        r["smt_full"] = smt_full
        r["smt_core"] = smt_core
    return idx, r


import re as _re

_PARTIAL_UF = _re.compile(r"\(\|?(Sum_[0-9a-f]+(\.re|\.im)?|pow|exp|ln|log10|arcsin|angle_[a-z]+|angle|cosn|sinn)\|? ")


def _pool_worker(wid, task_q, res_q):
    while True:
        task = task_q.get()
        if task is None:
            return
        res_q.put(("start", wid, task[0], None))
        try:
            idx, r = _ob_worker(task)
        except BaseException as e:  # noqa: BLE001
            idx, r = task[0], dict(status="error", backend="worker", time=0.0, model=None, reason=repr(e), log=[], prep=0.0)
        res_q.put(("done", wid, idx, r))


def discharge_obligations(eng, obs, level=0, timeout_ms=20000, seed=0, cvc5="unknown", cvc5_timeout_s=30, jobs=None, deadline=None):
    """prepare and solve obligations in forked workers; returns list of result dicts.

    A watchdog kills a worker whose current obligation exceeds a hard wall-clock limit (z3's nonlinear
    arithmetic can ignore its own timeout inside big-number routines): that obligation is *undecided*."""
    _G["eng"] = eng
    _G["obs"] = obs
    _G["deadline"] = deadline
    n = jobs or int(os.environ.get("PYVC_JOBS", "15"))
    n = min(n, max(1, len(obs)))
    hard = float(os.environ.get("PYVC_HARD_LIMIT_S", str(max(240.0, 12.0 * timeout_ms / 1000.0))))
    ctx = mp.get_context("fork")
    task_q, res_q = ctx.Queue(), ctx.Queue()
    out = [None] * len(obs)
    if not obs:
        return out
    for i in range(len(obs)):
        task_q.put((i, level, timeout_ms, seed, cvc5, cvc5_timeout_s))
    procs, running = {}, {}
    next_wid = [0]

    def spawn():
        wid = next_wid[0]
        next_wid[0] += 1
        p = ctx.Process(target=_pool_worker, args=(wid, task_q, res_q), daemon=True)
        p.start()
        procs[wid] = p
        return wid

    for _ in range(n):
        spawn()
    done = 0
    import queue as _q

    while done < len(obs):
        try:
            kind, wid, idx, r = res_q.get(timeout=1.0)
            if kind == "start":
                running[wid] = (idx, time.time())
            else:
                running.pop(wid, None)
                if out[idx] is None:
                    out[idx] = r
                    done += 1
            continue_polling = not res_q.empty()
        except _q.Empty:
            continue_polling = False
        if continue_polling:
            continue
        now = time.time()
        for wid, (idx, t0) in list(running.items()):
            if now - t0 > hard:
                p = procs.pop(wid)
                p.kill()
                p.join(1)
                running.pop(wid, None)
                if out[idx] is None:
                    out[idx] = dict(status="unknown", backend="z3", time=now - t0, model=None, reason=f"hard wall-clock limit ({hard:.0f} s): solver did not honour its timeout", log=[("watchdog-kill", "unknown", round(now - t0, 1))], prep=0.0)
                    done += 1
                spawn()
        # a worker that died without reporting (out of memory, crash): its obligation is undecided
        for wid, p in list(procs.items()):
            if not p.is_alive() and wid in running:
                idx, t0 = running.pop(wid)
                procs.pop(wid)
                if out[idx] is None:
                    out[idx] = dict(status="unknown", backend="z3", time=now - t0, model=None, reason="worker process died", log=[("worker-died", "unknown", 0.0)], prep=0.0)
                    done += 1
                spawn()
    for _ in procs:
        task_q.put(None)
    for p in procs.values():
        p.join(2)
        if p.is_alive():
            p.kill()
    return out
