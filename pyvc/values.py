"""Symbolic values for pyvc.

Python ``int`` -> z3 Int (unbounded), ``float`` -> z3 Real (assumption A-REAL),
``complex`` -> pair of reals, ``bool`` -> z3 Bool.  Concrete numbers are kept as
Python ``int`` / ``Fraction`` for as long as possible so that loops with concrete
bounds unroll and constants fold.
"""
from __future__ import annotations

import itertools
from fractions import Fraction

import z3

# ----------------------------------------------------------------------------
# exceptions


class Unsupported(Exception):
    """A construct outside the interpreted subset (exit 2: undecided)."""


class VerifError(Exception):
    """Checker-internal error (exit 3)."""


# ----------------------------------------------------------------------------
# scalar symbolic values


class Sym:
    __slots__ = ("t", "kind")

    def __init__(self, t, kind):
        self.t = t
        self.kind = kind  # 'int' | 'real' | 'bool'

    def __repr__(self):
        return f"Sym<{self.kind}>({self.t})"


class Cx:
    """complex number; parts are Python numbers or real-kinded values"""

    __slots__ = ("re", "im")

    def __init__(self, re, im):
        self.re = re
        self.im = im

    def __repr__(self):
        return f"Cx({self.re}, {self.im})"


class Opaque:
    """An uninterpreted Python object with identity (window callable, module...)."""

    def __init__(self, name, attrs=None):
        self.name = name
        self.attrs = attrs or {}

    def __repr__(self):
        return f"Opaque({self.name})"


class StrV:
    """A string whose content is irrelevant (f-string, message)."""

    def __repr__(self):
        return "StrV"


_uid = itertools.count(1)


def fresh_uid():
    return next(_uid)


def is_concrete_num(v):
    return isinstance(v, (int, Fraction)) and not isinstance(v, bool)


def is_scalar(v):
    return isinstance(v, (int, Fraction, bool, Sym, float))


def norm_num(v):
    """floats become exact rationals (A-REAL)"""
    if isinstance(v, bool):
        return v
    if isinstance(v, float):
        if v != v or v in (float("inf"), float("-inf")):
            raise Unsupported("non-finite float literal")
        return frac_of_float(v)
    if isinstance(v, Fraction) and v.denominator == 1:
        return v  # keep Fraction: "is a float" marker for int-valued floats
    return v


def frac_of_float(v):
    # the decimal text of the literal is what the source says; repr round-trips
    return Fraction(repr(v))


def kind_of(v):
    if isinstance(v, bool):
        return "bool"
    if isinstance(v, int):
        return "int"
    if isinstance(v, Fraction):
        return "real"
    if isinstance(v, Sym):
        return v.kind
    if isinstance(v, Cx):
        return "cx"
    return type(v).__name__


def z3num(v):
    if isinstance(v, bool):
        return z3.BoolVal(v)
    if isinstance(v, int):
        return z3.IntVal(v)
    if isinstance(v, Fraction):
        return z3.RealVal(str(v))
    raise VerifError(f"z3num({v!r})")


def term(v):
    """z3 term of a scalar value"""
    if isinstance(v, Sym):
        return v.t
    if isinstance(v, float):
        v = norm_num(v)
    return z3num(v)


def real_term(v):
    if isinstance(v, Sym):
        if v.kind == "real":
            return v.t
        if v.kind == "int":
            return z3.ToReal(v.t)
        if v.kind == "bool":
            return z3.If(v.t, z3.RealVal(1), z3.RealVal(0))
    if isinstance(v, bool):
        return z3.RealVal(1 if v else 0)
    if isinstance(v, int):
        return z3.RealVal(v)
    if isinstance(v, float):
        v = norm_num(v)
    if isinstance(v, Fraction):
        return z3.RealVal(str(v))
    raise VerifError(f"real_term({v!r})")


def int_term(v):
    if isinstance(v, Sym):
        if v.kind == "int":
            return v.t
        if v.kind == "bool":
            return z3.If(v.t, z3.IntVal(1), z3.IntVal(0))
        raise VerifError("int_term of real")
    if isinstance(v, bool):
        return z3.IntVal(1 if v else 0)
    if isinstance(v, int):
        return z3.IntVal(v)
    raise VerifError(f"int_term({v!r})")


def bool_term(v):
    if isinstance(v, Sym):
        if v.kind == "bool":
            return v.t
        if v.kind == "int":
            return v.t != 0
        return v.t != 0
    if isinstance(v, bool):
        return z3.BoolVal(v)
    if isinstance(v, (int, Fraction)):
        return z3.BoolVal(v != 0)
    if v is None:
        return z3.BoolVal(False)
    raise VerifError(f"bool_term({v!r})")


def mk(t, kind):
    """wrap a z3 term, folding numerals back to Python numbers"""
    if z3.is_int_value(t):
        return t.as_long()
    if z3.is_rational_value(t):
        return Fraction(t.numerator_as_long(), t.denominator_as_long())
    if z3.is_true(t):
        return True
    if z3.is_false(t):
        return False
    return Sym(t, kind)


def is_intlike(v):
    return isinstance(v, int) and not isinstance(v, bool) or (isinstance(v, Sym) and v.kind == "int")


def is_reallike(v):
    return isinstance(v, Fraction) or (isinstance(v, Sym) and v.kind == "real")


def is_boollike(v):
    return isinstance(v, bool) or (isinstance(v, Sym) and v.kind == "bool")


def as_arith(v):
    """bools participate in arithmetic as 0/1"""
    if isinstance(v, bool):
        return int(v)
    if isinstance(v, Sym) and v.kind == "bool":
        return Sym(z3.If(v.t, z3.IntVal(1), z3.IntVal(0)), "int")
    if isinstance(v, float):
        return norm_num(v)
    return v


# ----------------------------------------------------------------------------
# arithmetic on scalars (int / real / complex)


def _both_concrete(a, b):
    return is_concrete_num(a) and is_concrete_num(b)


def cx_of(v):
    if isinstance(v, Cx):
        return v
    return Cx(v, 0)


def add(a, b):
    a, b = as_arith(a), as_arith(b)
    if isinstance(a, Cx) or isinstance(b, Cx):
        a, b = cx_of(a), cx_of(b)
        return Cx(add(a.re, b.re), add(a.im, b.im))
    if _both_concrete(a, b):
        return _keep_float(a + b, a, b)
    if is_concrete_num(a) and a == 0 and not isinstance(a, Fraction):
        return b
    if is_concrete_num(b) and b == 0 and not isinstance(b, Fraction):
        return a
    if is_intlike(a) and is_intlike(b):
        return mk(int_term(a) + int_term(b), "int")
    if is_concrete_num(a) and a == 0:
        return to_real(b)
    if is_concrete_num(b) and b == 0:
        return to_real(a)
    return mk(real_term(a) + real_term(b), "real")


def _keep_float(r, a, b):
    # result of int op int stays int; anything with a Fraction is a "float"
    if isinstance(a, Fraction) or isinstance(b, Fraction):
        return Fraction(r)
    return r


def neg(a):
    a = as_arith(a)
    if isinstance(a, Cx):
        return Cx(neg(a.re), neg(a.im))
    if is_concrete_num(a):
        return -a
    return mk(-a.t, a.kind)


def sub(a, b):
    a, b = as_arith(a), as_arith(b)
    if isinstance(a, Cx) or isinstance(b, Cx):
        a, b = cx_of(a), cx_of(b)
        return Cx(sub(a.re, b.re), sub(a.im, b.im))
    if _both_concrete(a, b):
        return _keep_float(a - b, a, b)
    if is_concrete_num(b) and b == 0:
        return a if not isinstance(b, Fraction) else to_real(a)
    if is_intlike(a) and is_intlike(b):
        return mk(int_term(a) - int_term(b), "int")
    return mk(real_term(a) - real_term(b), "real")


def mul(a, b):
    a, b = as_arith(a), as_arith(b)
    if isinstance(a, Cx) or isinstance(b, Cx):
        a, b = cx_of(a), cx_of(b)
        return Cx(
            sub(mul(a.re, b.re), mul(a.im, b.im)),
            add(mul(a.re, b.im), mul(a.im, b.re)),
        )
    if _both_concrete(a, b):
        return _keep_float(a * b, a, b)
    for u, v in ((a, b), (b, a)):
        if is_concrete_num(u):
            if u == 0:
                return Fraction(0) if (isinstance(u, Fraction) or is_reallike(v)) else 0
            if u == 1:
                return v if not isinstance(u, Fraction) else to_real(v)
    if is_intlike(a) and is_intlike(b):
        return mk(int_term(a) * int_term(b), "int")
    return mk(real_term(a) * real_term(b), "real")


def to_real(v):
    v = as_arith(v)
    if isinstance(v, Cx):
        return v
    if isinstance(v, int):
        return Fraction(v)
    if isinstance(v, Fraction):
        return v
    if isinstance(v, Sym):
        if v.kind == "real":
            return v
        return Sym(z3.ToReal(int_term(v)), "real")
    raise VerifError(f"to_real({v!r})")


def truediv(a, b):
    """a / b; the caller is responsible for the non-zero obligation"""
    a, b = as_arith(a), as_arith(b)
    if isinstance(b, Cx):
        # a / b = a * conj(b) / |b|^2
        d = add(mul(b.re, b.re), mul(b.im, b.im))
        n = mul(cx_of(a), Cx(b.re, neg(b.im)))
        return Cx(truediv(n.re, d), truediv(n.im, d))
    if isinstance(a, Cx):
        return Cx(truediv(a.re, b), truediv(a.im, b))
    if _both_concrete(a, b):
        if b == 0:
            raise ZeroDivisionError
        return Fraction(a) / Fraction(b)
    if is_concrete_num(b):
        if b == 1:
            return to_real(a)
        return mk(real_term(a) * z3.RealVal(str(1 / Fraction(b))), "real")
    if is_concrete_num(a) and a == 0:
        return Fraction(0)
    return mk(real_term(a) / real_term(b), "real")


def floor_real(a):
    """floor of a real as int"""
    a = as_arith(a)
    if isinstance(a, int):
        return a
    if isinstance(a, Fraction):
        return a.numerator // a.denominator
    if a.kind == "int":
        return a
    s_ = _int_valued(a.t, 3)
    if s_ is not None:
        return mk(s_, "int")
    return mk(z3.ToInt(a.t), "int")


def _int_valued(t, depth):
    """the int term of a real term that is syntactically integer-valued (to_real(i), integer
    numerals, ite of such), else None"""
    if z3.is_to_real(t):
        return t.arg(0)
    if z3.is_rational_value(t) and t.denominator_as_long() == 1:
        return z3.IntVal(t.numerator_as_long())
    if depth > 0 and z3.is_app_of(t, z3.Z3_OP_ITE):
        a_, b_ = _int_valued(t.arg(1), depth - 1), _int_valued(t.arg(2), depth - 1)
        if a_ is not None and b_ is not None:
            return z3.If(t.arg(0), a_, b_)
    return None


def floordiv(a, b):
    a, b = as_arith(a), as_arith(b)
    if _both_concrete(a, b):
        r = a // b
        return _keep_float(r, a, b)
    if is_intlike(a) and is_intlike(b):
        # SMT-LIB div is floor division for positive divisors (obligation at call site)
        return mk(int_term(a) / int_term(b), "int")
    q = truediv(a, b)
    return to_real(floor_real(q))


def mod(a, b):
    a, b = as_arith(a), as_arith(b)
    if _both_concrete(a, b):
        return _keep_float(a % b, a, b)
    if is_intlike(a) and is_intlike(b):
        return mk(int_term(a) % int_term(b), "int")
    # real modulo: a - b*floor(a/b)
    q = floor_real(truediv(a, b))
    return sub(to_real(a), mul(to_real(b), to_real(q)))


def cmp(op, a, b):
    a, b = as_arith(a), as_arith(b)
    if isinstance(a, Cx) or isinstance(b, Cx):
        a, b = cx_of(a), cx_of(b)
        if op == "==":
            return b_and(cmp("==", a.re, b.re), cmp("==", a.im, b.im))
        if op == "!=":
            return b_not(cmp("==", a, b))
        raise Unsupported("ordering of complex numbers")
    if _both_concrete(a, b):
        return {
            "==": a == b,
            "!=": a != b,
            "<": a < b,
            "<=": a <= b,
            ">": a > b,
            ">=": a >= b,
        }[op]
    if is_intlike(a) and is_intlike(b):
        x, y = int_term(a), int_term(b)
    else:
        x, y = real_term(a), real_term(b)
    if x.get_id() == y.get_id():
        return op in ("==", "<=", ">=")
    t = {
        "==": lambda: x == y,
        "!=": lambda: x != y,
        "<": lambda: x < y,
        "<=": lambda: x <= y,
        ">": lambda: x > y,
        ">=": lambda: x >= y,
    }[op]()
    return mk(t, "bool")


def b_not(a):
    if isinstance(a, bool):
        return not a
    if isinstance(a, Sym):
        return mk(z3.Not(bool_term(a)), "bool")
    if a is None:
        return True
    if is_concrete_num(a):
        return a == 0
    raise Unsupported(f"not {a!r}")


def b_and(*xs):
    ts = []
    for x in xs:
        if isinstance(x, bool):
            if not x:
                return False
            continue
        ts.append(bool_term(x))
    if not ts:
        return True
    if len(ts) == 1:
        return mk(ts[0], "bool")
    return mk(z3.And(*ts), "bool")


def b_or(*xs):
    ts = []
    for x in xs:
        if isinstance(x, bool):
            if x:
                return True
            continue
        ts.append(bool_term(x))
    if not ts:
        return False
    if len(ts) == 1:
        return mk(ts[0], "bool")
    return mk(z3.Or(*ts), "bool")


def b_implies(a, b):
    return b_or(b_not(a), b)


def ite(c, a, b):
    """scalar / complex if-then-else"""
    if isinstance(c, bool):
        return a if c else b
    a, b = as_arith(a), as_arith(b)
    if isinstance(a, Cx) or isinstance(b, Cx):
        a, b = cx_of(a), cx_of(b)
        return Cx(ite(c, a.re, b.re), ite(c, a.im, b.im))
    if a is b:
        return a
    if is_boollike(a) and is_boollike(b):
        return mk(z3.If(bool_term(c), bool_term(a), bool_term(b)), "bool")
    if is_intlike(a) and is_intlike(b):
        return mk(z3.If(bool_term(c), int_term(a), int_term(b)), "int")
    if is_scalar(a) and is_scalar(b):
        return mk(z3.If(bool_term(c), real_term(a), real_term(b)), "real")
    raise Unsupported(f"ite over {type(a).__name__}/{type(b).__name__}")


def abs_(a):
    a = as_arith(a)
    if is_concrete_num(a):
        return abs(a)
    if isinstance(a, Cx):
        raise VerifError("abs of complex handled by caller (needs sqrt)")
    if a.kind == "int":
        return mk(z3.If(a.t >= 0, a.t, -a.t), "int")
    return mk(z3.If(a.t >= 0, a.t, -a.t), "real")


def trunc_int(a):
    """int(x): truncation toward zero"""
    a = as_arith(a)
    if isinstance(a, int):
        return a
    if isinstance(a, Fraction):
        return int(a)
    if a.kind == "int":
        return a
    t = a.t
    s_ = _int_valued(t, 3)
    if s_ is not None:
        return mk(s_, "int")
    return mk(z3.If(t >= 0, z3.ToInt(t), -z3.ToInt(-t)), "int")


def ceil_int(a):
    a = as_arith(a)
    if isinstance(a, int):
        return a
    if isinstance(a, Sym) and a.kind == "real":
        s_ = _int_valued(a.t, 3)
        if s_ is not None:
            return mk(s_, "int")
    if isinstance(a, Fraction):
        return -((-a.numerator) // a.denominator)
    if a.kind == "int":
        return a
    return mk(-z3.ToInt(-a.t), "int")


def round_half_even(a):
    a = as_arith(a)
    if isinstance(a, int):
        return a
    if isinstance(a, Fraction):
        return round(a)
    if a.kind == "int":
        return a
    s_ = _int_valued(a.t, 3)
    if s_ is not None:
        return mk(s_, "int")
    f = z3.ToInt(a.t + z3.RealVal("1/2"))
    tie = z3.And(z3.ToReal(f) == a.t + z3.RealVal("1/2"), f % 2 == 1)
    return mk(z3.If(tie, f - 1, f), "int")


def conj(a):
    if isinstance(a, Cx):
        return Cx(a.re, neg(a.im))
    return a


def scalar_eq_term(a, b):
    """z3 Bool for a == b over scalars / complex (used by obligations)"""
    r = cmp("==", a, b)
    return bool_term(r)
