"""Assumed contracts of NumPy (DESIGN.md 3.2) as closed forms over lazily
indexed arrays.  An array is ``(shape, index -> term)``; elementwise code stays
quantifier-free and "for all elements" is proved at one symbolic index."""
from __future__ import annotations

import ast
from fractions import Fraction

import z3

from . import values as V
from .values import Sym, Cx, Opaque, StrV, Unsupported, VerifError
from .heap import Ref, ListV, DictV, ArrV, ObjV, Closure, Builtin, ModuleV, BoundMethod, SliceV, ExcV, _ite_any
from .engine import _RangeV, _Forked, _Raised, _MaybeNone
from . import spec as S


# ----------------------------------------------------------------------------- helpers


def is_arr(x):
    return isinstance(x, ArrV)


def dim_eq(a, b):
    if isinstance(a, int) and isinstance(b, int):
        return a == b
    return None


def bshape(sa, sb):
    """broadcast two shapes (dims equal, or concrete 1)"""
    n = max(len(sa), len(sb))
    pa = (1,) * (n - len(sa)) + tuple(sa)
    pb = (1,) * (n - len(sb)) + tuple(sb)
    out = []
    for x, y in zip(pa, pb):
        if isinstance(x, int) and x == 1:
            out.append(y)
        elif isinstance(y, int) and y == 1:
            out.append(x)
        else:
            if isinstance(x, int) and isinstance(y, int) and x != y:
                raise Unsupported(f"shape mismatch {sa} vs {sb}")
            out.append(x)
    return tuple(out), pa, pb


def _bidx(idx, padded):
    """index into an operand of padded shape under broadcasting"""
    off = len(idx) - len(padded)
    return tuple(0 if (isinstance(d, int) and d == 1) else i for i, d in zip(idx[off:], padded))


def _strip(idx, shape, padded):
    k = len(padded) - len(shape)
    return idx[k:]


def np_zip(eng, st, f, a, b, dtype=None):
    st = eng.pst
    a, b = eng.deref(st, a), eng.deref(st, b)
    if not is_arr(a) and not is_arr(b):
        return f(a, b)
    if not is_arr(a):
        r = ArrV(b.shape, lambda idx: f(a, b.fn(idx)), dtype or _dt2(a, b))
        mk = getattr(b, "_masked", None)
        if mk is not None:
            # (x[mask]) op scalar is (x op scalar)[mask]
            r._masked = (ArrV(mk[0].shape, lambda idx, base=mk[0]: f(a, base.fn(idx)), dtype or _dt2(a, b)), mk[1])
        return r
    if not is_arr(b):
        r = ArrV(a.shape, lambda idx: f(a.fn(idx), b), dtype or _dt2(a, b))
        mk = getattr(a, "_masked", None)
        if mk is not None:
            r._masked = (ArrV(mk[0].shape, lambda idx, base=mk[0]: f(base.fn(idx), b), dtype or _dt2(a, b)), mk[1])
        return r
    shape, pa, pb = bshape(a.shape, b.shape)

    def fn(idx):
        ia = _strip(_bidx(idx, pa), a.shape, pa)
        ib = _strip(_bidx(idx, pb), b.shape, pb)
        return f(a.fn(ia), b.fn(ib))

    return ArrV(shape, fn, dtype or _dt2(a, b))


def _dt(x):
    if is_arr(x):
        return x.dtype
    if isinstance(x, Cx):
        return "cx"
    if V.is_boollike(x):
        return "bool"
    if V.is_intlike(x):
        return "int"
    return "real"


def _dt2(a, b):
    da, db = _dt(a), _dt(b)
    if "cx" in (da, db):
        return "cx"
    if da == db:
        return da
    return "real"


def np_map(eng, st, f, a, dtype=None):
    st = eng.pst
    a = eng.deref(st, a)
    if not is_arr(a):
        return f(a)
    return ArrV(a.shape, lambda idx: f(a.fn(idx)), dtype or a.dtype)


def total_size(shape):
    out = 1
    for d in shape:
        out = V.mul(out, d)
    return out


def as_array(eng, st, x, dtype=None):
    """np.asarray semantics for lists / tuples / scalars"""
    st = eng.pst
    x = eng.deref(st, x)
    if is_arr(x):
        return x
    if isinstance(x, (tuple,)) or isinstance(x, ListV):
        if isinstance(x, ListV) and not x.concrete():
            e0 = None
            lv = x

            def fn(idx, lv=lv):
                e = eng.deref(st, lv.get(idx[0]))
                if is_arr(e):
                    return e.fn(tuple(idx[1:]))
                if isinstance(e, ListV):
                    return e.get(idx[1])
                return e

            return ArrV((x.n,), fn, dtype or (x.etype if x.etype in ("int", "real", "bool") else "real"))
        items = list(x) if isinstance(x, tuple) else x.items
        items = [eng.deref(st, i) for i in items]
        if items and all(is_arr(i) or isinstance(i, (ListV, tuple)) for i in items):
            subs = [as_array(eng, st, i) for i in items]
            sh = subs[0].shape
            return ArrV((len(subs),) + tuple(sh), lambda idx: subs[_conc(idx[0])].fn(tuple(idx[1:])) if isinstance(idx[0], int) else _sel(subs, idx), subs[0].dtype)
        its = items

        def fn1(idx):
            i = idx[0]
            if isinstance(i, int):
                return its[i]
            out = its[-1]
            for k in range(len(its) - 2, -1, -1):
                out = V.ite(V.cmp("==", i, k), its[k], out)
            return out

        dt = dtype or ("cx" if any(isinstance(i, Cx) for i in its) else ("int" if its and all(V.is_intlike(i) for i in its) else "real"))
        return ArrV((len(its),), fn1, dt)
    if V.is_scalar(x) or isinstance(x, Cx):
        return ArrV((), lambda idx: x, _dt(x))
    raise Unsupported(f"asarray of {x!r}")


def _conc(i):
    return i


def _sel(subs, idx):
    i = idx[0]
    out = subs[-1].fn(tuple(idx[1:]))
    for k in range(len(subs) - 2, -1, -1):
        out = V.ite(V.cmp("==", i, k), subs[k].fn(tuple(idx[1:])), out)
    return out


# ----------------------------------------------------------------------------- indexing


def _sign_known(eng, st, v):
    """True if v < 0 is entailed, False if v >= 0 is entailed, None otherwise"""
    if isinstance(v, int):
        return v < 0
    s = z3.Solver()
    s.set("timeout", 2000)
    for h in st.pc:
        s.add(h)
    t = V.int_term(v)
    s.push()
    s.add(t >= 0)
    r1 = s.check()
    s.pop()
    if r1 == z3.unsat:
        return True
    s.push()
    s.add(t < 0)
    r2 = s.check()
    s.pop()
    if r2 == z3.unsat:
        return False
    return None


def simp_int(v):
    """normalise an integer term (array lengths / slice bounds), so that L+1-1 is L"""
    if isinstance(v, Sym) and v.kind == "int":
        return V.mk(z3.simplify(v.t), "int")
    return v


def norm_slice(eng, st, sl, n, label):
    """-> (start, length, step) with step in {1,-1}; emits in-range obligations"""
    r = _norm_slice(eng, st, sl, n, label)
    return simp_int(r[0]), simp_int(r[1]), r[2]


def _norm_slice(eng, st, sl, n, label):
    step = sl.step if sl.step is not None else 1
    if step not in (1, -1):
        if isinstance(step, int) and step > 1 and sl.lo is None and sl.hi is None:
            return 0, V.floordiv(V.add(n, step - 1), step), step
        if isinstance(step, int) and step != 0 and isinstance(n, int) and all(v is None or isinstance(v, int) for v in (sl.lo, sl.hi)):
            # fully concrete: Python's own slice arithmetic (clipping included)
            r_ = range(*slice(sl.lo, sl.hi, step).indices(n))
            return (r_.start if len(r_) else 0), len(r_), step
        raise Unsupported("slice step other than +-1")

    def fix(v, default):
        if v is None:
            return default
        neg = _sign_known(eng, st, v)
        if neg is None:
            raise Unsupported(f"slice bound of unknown sign ({label})")
        return V.add(n, v) if neg else v

    if step == 1:
        lo = fix(sl.lo, 0)
        hi = fix(sl.hi, n)
        if not st.ghost and not (sl.lo is None and sl.hi is None):
            g = V.b_and(V.cmp("<=", 0, lo), V.cmp("<=", lo, hi), V.cmp("<=", hi, n))
            eng.oblige(st, "safe", f"slice:{label}", g)
        return lo, V.sub(hi, lo), 1
    # step == -1
    lo = fix(sl.lo, V.sub(n, 1))
    if sl.hi is None:
        hi = -1
    else:
        hi = fix(sl.hi, None)
    if not st.ghost:
        g = V.b_and(V.cmp("<=", -1, hi), V.cmp("<=", hi, lo), V.cmp("<", lo, n))
        eng.oblige(st, "safe", f"slice:{label}", g)
    return lo, V.sub(lo, hi), -1


def np_index(eng, st, arr, idx, line=0):
    st = eng.pst
    arr = eng.deref(st, arr)
    idx = tuple(eng.deref(st, i) if isinstance(i, Ref) else i for i in idx)
    # boolean mask
    if len(idx) == 1 and is_arr(idx[0]) and idx[0].dtype == "bool":
        return np_compress(eng, st, arr, idx[0])
    if len(idx) == 1 and isinstance(idx[0], ListV):
        idx = (as_array(eng, st, idx[0]),)
    # integer-array (fancy) index on the leading axis
    if len(idx) >= 1 and is_arr(idx[0]) and idx[0].dtype == "int":
        ia = idx[0]
        if len(idx) > 1:
            raise Unsupported("mixed fancy indexing")
        rest = arr.shape[1:]
        nd = len(ia.shape)
        if not st.ghost:
            # every gathered index must be in range (checked once, for all positions)
            n0 = arr.shape[0]
            eng.oblige(st, "safe", f"index:fancy@{line}", forall_elems(eng, st, ia, lambda j: V.b_and(V.cmp("<=", 0, j), V.cmp("<", j, n0))))

        def fn(ix, ia=ia, arr=arr, nd=nd):
            j = ia.fn(tuple(ix[:nd]))
            return arr.fn((j,) + tuple(ix[nd:]))

        return ArrV(tuple(ia.shape) + tuple(rest), fn, arr.dtype)
    # Ellipsis not supported; expand basic indices
    plan = []
    dim = 0
    shape = []
    for comp in idx:
        if comp is None:
            plan.append(("new",))
            shape.append(1)
            continue
        if dim >= len(arr.shape):
            raise Unsupported(f"too many indices for array at line {line}")
        n = arr.shape[dim]
        if isinstance(comp, SliceV):
            lo, ln, step = norm_slice(eng, st, comp, n, f"@{line}")
            plan.append(("slice", lo, step))
            shape.append(ln)
        else:
            comp = V.as_arith(comp)
            if isinstance(comp, Fraction):
                raise Unsupported("float index")
            neg = _sign_known(eng, st, comp) if isinstance(comp, int) and comp < 0 else False
            if isinstance(comp, int) and comp < 0:
                if not st.ghost:
                    eng.oblige(st, "safe", f"index:neg@{line}", V.cmp(">=", n, -comp))
                comp = V.add(n, comp)
            else:
                eng.check_index(st, comp, n, f"@{line}")
            plan.append(("int", comp))
        dim += 1
    while dim < len(arr.shape):
        plan.append(("slice", 0, 1))
        shape.append(arr.shape[dim])
        dim += 1
    if not shape:
        full = tuple(p[1] for p in plan if p[0] == "int")
        return arr.fn(full)

    def fn(ix, plan=plan, arr=arr):
        out = []
        k = 0
        for p in plan:
            if p[0] == "new":
                k += 1
            elif p[0] == "int":
                out.append(p[1])
            else:
                _, lo, step = p
                i = ix[k]
                k += 1
                if step == 1:
                    out.append(V.add(lo, i))
                elif step == -1:
                    out.append(V.sub(lo, i))
                else:
                    out.append(V.add(lo, V.mul(i, step)))
        return arr.fn(tuple(out))

    r = ArrV(tuple(shape), fn, arr.dtype, bufs=arr.bufs)
    r._view_of = (arr, tuple(p[1] if p[0] == "int" else None for p in plan))  # basic-index provenance (used by assumed contracts)
    return r


def np_compress(eng, st, arr, mask):
    """a[mask]: order-preserving selection; selection map is uninterpreted with its
    defining properties as hypotheses"""
    st = eng.pst
    n = arr.shape[0]
    key = getattr(mask, "_ckey", None)
    if key is None:
        mask._ckey = key = f"cmp{mask.uid}"
        m = eng.fresh(key + ".count", "int")
        sel = eng.fresh_fn(key + ".sel", 1, "int")
        rank = eng.fresh_fn(key + ".rank", 1, "int")
        mask._cinfo = (m, sel, rank)
        i = z3.Int(key + "!i")
        p = z3.Int(key + "!p")
        nt = V.int_term(n)
        st.fact(z3.And(m.t >= 0, m.t <= nt))
        mi = V.bool_term(eng.truthy(st, mask.fn((Sym(sel(i), "int"),))))
        st.fact(z3.ForAll([i], z3.Implies(z3.And(0 <= i, i < m.t), z3.And(sel(i) >= 0, sel(i) < nt, mi)), patterns=[sel(i)]))
        st.fact(z3.ForAll([i], z3.Implies(z3.And(0 <= i, i + 1 < m.t), sel(i) < sel(i + 1)), patterns=[sel(i + 1)]))
        mp = V.bool_term(eng.truthy(st, mask.fn((Sym(p, "int"),))))
        st.fact(z3.ForAll([p], z3.Implies(z3.And(0 <= p, p < nt, mp), z3.And(rank(p) >= 0, rank(p) < m.t, sel(rank(p)) == p)), patterns=[rank(p)]))
    m, sel, rank = mask._cinfo
    eng.last_compress = mask._cinfo
    rest = arr.shape[1:]

    def fn(ix, arr=arr, sel=sel):
        return arr.fn((Sym(sel(V.int_term(ix[0])), "int"),) + tuple(ix[1:]))

    r = ArrV((m,) + tuple(rest), fn, arr.dtype)
    r._masked = (arr, mask)
    return r


def np_store(eng, st, arr, idx, v, node=None):
    st = eng.pst
    line = getattr(node, "lineno", 0)
    v = eng.deref(st, v)
    if not isinstance(idx, tuple):
        idx = (idx,)
    idx = tuple(eng.deref(st, i) if isinstance(i, Ref) else i for i in idx)
    if len(idx) == 1 and is_arr(idx[0]) and idx[0].dtype == "bool":
        mask = idx[0]
        if is_arr(v):
            src = getattr(v, "_masked", None)
            if src is None or src[1] is not mask:
                raise Unsupported("masked store of an array not selected by the same mask")
            base = src[0]
            return ArrV(arr.shape, lambda ix: _ite_any(eng.truthy(st, mask.fn(ix)), base.fn(ix), arr.fn(ix)), arr.dtype, bufs=arr.bufs)
        return ArrV(arr.shape, lambda ix: _ite_any(eng.truthy(st, mask.fn(ix)), _cast(v, arr.dtype), arr.fn(ix)), arr.dtype, bufs=arr.bufs)
    # basic index: ints and slices
    conds = []  # per-dim (kind, ...)
    dim = 0
    for comp in idx:
        n = arr.shape[dim]
        if isinstance(comp, SliceV):
            lo, ln, step = norm_slice(eng, st, comp, n, f"store@{line}")
            conds.append(("slice", lo, ln, step))
        else:
            comp = V.as_arith(comp)
            if isinstance(comp, int) and comp < 0:
                comp = V.add(n, comp)
            eng.check_index(st, comp, n, f"store@{line}")
            conds.append(("int", comp))
        dim += 1
    while dim < len(arr.shape):
        conds.append(("slice", 0, arr.shape[dim], 1))
        dim += 1

    def fn(ix, conds=conds, arr=arr, v=v):
        cs = []
        vix = []
        for c, i in zip(conds, ix):
            if c[0] == "int":
                cs.append(V.cmp("==", i, c[1]))
            else:
                _, lo, ln, step = c
                if step == 1:
                    cs.append(V.b_and(V.cmp("<=", lo, i), V.cmp("<", i, V.add(lo, ln))))
                    vix.append(V.sub(i, lo))
                elif step == -1:
                    cs.append(V.b_and(V.cmp(">=", lo, i), V.cmp(">", i, V.sub(lo, ln))))
                    vix.append(V.sub(lo, i))
                elif isinstance(step, int) and step > 1:
                    d_ = V.sub(i, lo)
                    cs.append(V.b_and(V.cmp("<=", lo, i), V.cmp("<", i, V.add(lo, V.mul(ln, step))), V.cmp("==", V.mod(d_, step), 0)))
                    vix.append(V.floordiv(d_, step))
                else:
                    d_ = V.sub(lo, i)
                    cs.append(V.b_and(V.cmp(">=", lo, i), V.cmp(">", i, V.add(lo, V.mul(ln, step))), V.cmp("==", V.mod(d_, -step), 0)))
                    vix.append(V.floordiv(d_, -step))
        cond = V.b_and(*cs)
        if is_arr(v):
            # broadcast v against the selected region
            k = len(vix) - len(v.shape)
            vv = v.fn(tuple(0 if (isinstance(d, int) and d == 1 and not (isinstance(j, int) and j == 0)) else j for j, d in zip(vix[k:], v.shape)))
        else:
            vv = v
        return _ite_any(cond, _cast(vv, arr.dtype), arr.fn(ix))

    return ArrV(arr.shape, fn, arr.dtype, bufs=arr.bufs)


def _cast(v, dtype):
    if dtype == "cx":
        return V.cx_of(V.as_arith(v))
    if dtype == "real" and not isinstance(v, Cx):
        return V.to_real(v)
    return v


# ----------------------------------------------------------------------------- reductions


def reduce_sum(eng, st, a, axis=None, keepdims=False):
    st = eng.pst
    a = eng.deref(st, a)
    if not is_arr(a):
        return a
    nd = len(a.shape)
    if axis is None:
        if nd == 1:
            return S.sum_of_terms(eng, st, 0, a.shape[0], lambda n: a.fn((n,)))
        if nd == 0:
            return a.fn(())
        if nd == 2:
            return S.sum_of_terms(eng, st, 0, a.shape[0], lambda i: S.sum_of_terms(eng, st, 0, a.shape[1], lambda j: a.fn((i, j))))
        raise Unsupported("full reduction of >2-D array")
    if axis < 0:
        axis += nd
    rest = a.shape[:axis] + a.shape[axis + 1 :]
    n = a.shape[axis]

    def fn(ix, a=a, axis=axis, n=n):
        if keepdims:
            ix = ix[:axis] + ix[axis + 1 :]
        return S.sum_of_terms(eng, st, 0, n, lambda k: a.fn(tuple(ix[:axis]) + (k,) + tuple(ix[axis:])))

    shape = (a.shape[:axis] + (1,) + a.shape[axis + 1 :]) if keepdims else rest
    if not shape:
        return fn(())
    return ArrV(shape, fn, a.dtype)


def reduce_mean(eng, st, a, axis=None, keepdims=False):
    st = eng.pst
    a = eng.deref(st, a)
    if not is_arr(a):
        return a
    s = reduce_sum(eng, st, a, axis, keepdims)
    n = total_size(a.shape) if axis is None else a.shape[axis if axis >= 0 else axis + len(a.shape)]
    eng.need_nonzero(st, n, f"mean-empty@{getattr(eng, 'cur_line', 0)}")
    return np_zip(eng, st, V.truediv, s, n)


def np_matmul(eng, st, a, b):
    st = eng.pst
    a, b = eng.deref(st, a), eng.deref(st, b)
    if not (is_arr(a) and is_arr(b)):
        raise Unsupported("matmul of non-arrays")
    na, nb = len(a.shape), len(b.shape)
    if na == 1 and nb == 1:
        return S.sum_of_terms(eng, st, 0, a.shape[0], lambda n: V.mul(a.fn((n,)), b.fn((n,))))
    if na == 2 and nb == 1:
        return ArrV((a.shape[0],), lambda ix: S.sum_of_terms(eng, st, 0, a.shape[1], lambda n: V.mul(a.fn((ix[0], n)), b.fn((n,)))), _dt2(a, b))
    if na == 2 and nb == 2:
        return ArrV((a.shape[0], b.shape[1]), lambda ix: S.sum_of_terms(eng, st, 0, a.shape[1], lambda n: V.mul(a.fn((ix[0], n)), b.fn((n, ix[1])))), _dt2(a, b))
    if na == 1 and nb == 2:
        return ArrV((b.shape[1],), lambda ix: S.sum_of_terms(eng, st, 0, a.shape[0], lambda n: V.mul(a.fn((n,)), b.fn((n, ix[0])))), _dt2(a, b))
    raise Unsupported("matmul rank")


def forall_elems(eng, st, a, pred):
    """z3 Bool: pred holds for every element of a"""
    st = eng.pst
    a = eng.deref(st, a)
    if not is_arr(a):
        return eng.truthy(st, pred(a))
    if all(isinstance(d, int) for d in a.shape) and total_size(a.shape) <= 8:
        import itertools

        return V.b_and(*[eng.truthy(st, pred(a.fn(ix))) for ix in itertools.product(*[range(d) for d in a.shape])])
    ks = [eng.fresh("e", "int") for _ in a.shape]
    rng = z3.And(*[z3.And(k.t >= 0, k.t < V.int_term(d)) for k, d in zip(ks, a.shape)])
    body = V.bool_term(eng.truthy(st, pred(a.fn(tuple(ks)))))
    return Sym(z3.ForAll([k.t for k in ks], z3.Implies(rng, body)), "bool")


def exists_elem(eng, st, a, pred):
    st = eng.pst
    a = eng.deref(st, a)
    if not is_arr(a):
        return eng.truthy(st, pred(a))
    if all(isinstance(d, int) for d in a.shape) and total_size(a.shape) <= 8:
        import itertools

        return V.b_or(*[eng.truthy(st, pred(a.fn(ix))) for ix in itertools.product(*[range(d) for d in a.shape])])
    ks = [eng.fresh("e", "int") for _ in a.shape]
    rng = z3.And(*[z3.And(k.t >= 0, k.t < V.int_term(d)) for k, d in zip(ks, a.shape)])
    body = V.bool_term(eng.truthy(st, pred(a.fn(tuple(ks)))))
    return Sym(z3.Exists([k.t for k in ks], z3.And(rng, body)), "bool")


# ----------------------------------------------------------------------------- array attributes / methods


def array_attr(eng, st, base, a, attr):
    if attr == "shape":
        return tuple(a.shape)
    if attr == "size":
        return total_size(a.shape)
    if attr == "ndim":
        return len(a.shape)
    if attr == "T":
        if len(a.shape) == 1:
            return a
        if len(a.shape) == 2:
            r = ArrV((a.shape[1], a.shape[0]), lambda ix: a.fn((ix[1], ix[0])), a.dtype, bufs=a.bufs)
            r.noncontig = not getattr(a, "noncontig", False)  # the transpose of a C-contiguous 2-D array is not
            return r
        raise Unsupported(".T of >2-D")
    if attr == "real":
        return np_map(eng, st, lambda x: V.cx_of(x).re if isinstance(x, Cx) else x, a, "real" if a.dtype == "cx" else a.dtype)
    if attr == "imag":
        return np_map(eng, st, lambda x: V.cx_of(x).im if isinstance(x, Cx) else 0, a, "real")
    if attr == "dtype":
        return Opaque(f"dtype:{a.dtype}", {"kind": {"int": "i", "real": "f", "cx": "c", "bool": "b", "obj": "O"}[a.dtype]})
    return BoundMethod(base, attr)


def array_method(eng, st, bm, args, kwargs, line=0):
    st = eng.pst
    a = eng.deref(st, bm.obj)
    name = bm.name
    if name == "mean":
        return reduce_mean(eng, st, a, kwargs.get("axis", args[0] if args else None), bool(kwargs.get("keepdims", False)))
    if name == "sum":
        return reduce_sum(eng, st, a, kwargs.get("axis", args[0] if args else None), bool(kwargs.get("keepdims", False)))
    if name in ("min", "max"):
        return eng.builtins["numpy." + name].fn(eng, st, a)
    if name in ("any", "all"):
        return eng.builtins["numpy." + name].fn(eng, st, a)
    if name == "astype":
        dt = args[0] if args else kwargs.get("dtype")
        if _dtype_kind(dt) == a.dtype and eng.truthy(st, kwargs.get("copy", True)) is False:
            return a  # astype(copy=False) with an unchanged dtype returns the array itself
        return _astype(eng, st, a, dt)
    if name == "copy":
        return eng.alloc(st, ArrV(a.shape, a.fn, a.dtype))
    if name == "conj" or name == "conjugate":
        return np_map(eng, st, V.conj, a)
    if name == "item":
        from .pymodel import _only_element

        return _only_element(eng, st, a)
    if name == "tolist":
        if len(a.shape) == 1:
            return eng.alloc(st, ListV(n=a.shape[0], fn=lambda i: a.fn((i,)), etype=a.dtype))
    if name == "fill":
        (v,) = args
        eng.frame_write(st, bm.obj, f"fill@{line}")
        st.heap[bm.obj.loc] = ArrV(a.shape, lambda ix: v, a.dtype, bufs=a.bufs)
        return None
    raise Unsupported(f"ndarray.{name}")


def _dtype_kind(dt):
    if dt is None:
        return None
    if isinstance(dt, Builtin):
        n = dt.name
        if n in ("int", "numpy.int64", "numpy.intp", "numpy.int32"):
            return "int"
        if n == "numpy.float32":
            # a cast to single precision is a rounding operation: outside A-REAL (floats as exact reals), never the identity
            raise Unsupported("cast to numpy.float32 (a rounding operation; the real-arithmetic model cannot treat it as the identity)")
        if n in ("float", "numpy.float64"):
            return "real"
        if n in ("complex", "numpy.complex128"):
            return "cx"
        if n in ("bool", "numpy.bool_"):
            return "bool"
        if n == "object":
            return "obj"
    if isinstance(dt, Opaque):
        if dt.name == "class:object":
            return "obj"
        if dt.name.startswith("dtype:"):
            return dt.name.split(":")[1]
    if isinstance(dt, str):
        if dt in ("float32", "float16", "f4", "f2", "complex64"):
            raise Unsupported(f"cast to {dt} (a rounding operation outside the real-arithmetic model)")
        return {"float64": "real", "int64": "int", "complex128": "cx", "float": "real", "int": "int", "complex": "cx"}.get(dt)
    raise Unsupported(f"dtype {dt!r}")


def _astype(eng, st, a, dt):
    st = eng.pst
    k = _dtype_kind(dt)
    if k == "int":
        return np_map(eng, st, V.trunc_int, a, "int")
    if k == "real":
        return np_map(eng, st, V.to_real, a, "real")
    if k == "cx":
        return np_map(eng, st, lambda x: V.cx_of(V.as_arith(x)), a, "cx")
    if k == "bool":
        return np_map(eng, st, lambda x: eng.truthy(st, x), a, "bool")
    raise Unsupported(f"astype({dt!r})")


def filtered_comprehension(eng, st, fid, node, itv):
    """[elt for tgt in it if cond] over a symbolic-length iterable: the order-preserving selection
    (same sel/rank functions as arr[mask] when cond is an element of a boolean array zipped in)"""
    import ast as _ast
    from .engine import _ZipV

    g = node.generators[0]
    if len(g.ifs) != 1:
        raise Unsupported("comprehension with several filters over a symbolic-length iterable")
    n, getter = eng.sym_iter(st, itv)
    mask = None
    cond = g.ifs[0]
    if isinstance(cond, _ast.Name) and isinstance(itv, _ZipV) and isinstance(g.target, _ast.Tuple):
        names = [t.id if isinstance(t, _ast.Name) else None for t in g.target.elts]
        if cond.id in names:
            part = eng.deref(st, itv.parts[names.index(cond.id)])
            if is_arr(part) and part.dtype == "bool" and len(part.shape) == 1:
                mask = part
    snap = st

    def with_target(i, expr):
        sub = eng.new_frame(snap, parent=fid)
        snap.ghost += 1
        try:
            eng.assign(g.target, getter(i), snap, sub)
            return eng.deref(snap, eng.eval1(expr, snap, sub))
        finally:
            snap.ghost -= 1
            del snap.frames[sub]

    if mask is None:
        mask = ArrV((n,), lambda ix: eng.truthy(snap, with_target(ix[0], cond)), "bool")
    np_compress(eng, st, mask, mask)
    m, sel, rank = mask._cinfo
    return eng.alloc(st, ListV(n=m, fn=lambda i: with_target(Sym(sel(V.int_term(i)), "int"), node.elt)))


# ----------------------------------------------------------------------------- install


def install(eng):
    B = eng.builtins
    mods = B["__modules__"]
    np = ModuleV("numpy")
    mods["numpy"] = np

    # expose helper functions on the engine
    eng.np_zip = lambda st, f, a, b, dtype=None: np_zip(eng, st, f, a, b, dtype)
    eng.np_map = lambda st, f, a, dtype=None: np_map(eng, st, f, a, dtype)
    eng.np_index = lambda st, a, idx, line=0: np_index(eng, st, a, idx, line)
    eng.np_store = lambda st, a, idx, v, node=None: np_store(eng, st, a, idx, v, node)
    eng.np_matmul = lambda st, a, b: np_matmul(eng, st, a, b)

    def reg(name, fn):
        b = Builtin("numpy." + name, fn, True)
        B["numpy." + name] = b
        np.attrs[name] = b
        return b

    for dn in ("float64", "int64", "complex128", "intp", "float32", "int32", "bool_"):
        b = Builtin("numpy." + dn, (lambda dn: lambda eng, st, x=0: _scalar_cast(eng, st, dn, x))(dn), True)
        B["numpy." + dn] = b
        np.attrs[dn] = b
    np.attrs["integer"] = Opaque("numpy.integer")
    np.attrs["ndarray"] = Opaque("numpy.ndarray")
    np.attrs["pi"] = S.PI(eng)
    np.attrs["inf"] = Opaque("inf")
    np.attrs["newaxis"] = None
    B["object"] = Opaque("class:object")

    def alloc_if(st, r):
        return eng.alloc(st, r) if is_arr(r) else r

    def f_asarray(eng, st, x, dtype=None, order=None, copy=None):
        xd = eng.deref(st, x)
        k = _dtype_kind(dtype)
        if is_arr(xd):
            if k and k != xd.dtype and not (k == "real" and xd.dtype == "real"):
                r = _astype(eng, st, xd, dtype)
                return eng.alloc(st, r)
            if isinstance(x, Ref):
                return _maybe_alias(eng, st, x, xd, k)
            return eng.alloc(st, xd)
        r = as_array(eng, st, xd, k)
        if k and k != r.dtype:
            r = _astype(eng, st, r, dtype)
        return eng.alloc(st, r)

    def _maybe_alias(eng, st, ref, xd, k):
        hook = getattr(eng, "alias_hook", None)
        if hook:
            return hook(eng, st, ref, xd, k)
        return ref

    def f_ascontig(eng, st, x, dtype=None):
        xd = eng.deref(st, x)
        if is_arr(xd) and getattr(xd, "noncontig", False):
            # a non-contiguous view is always copied
            k = _dtype_kind(dtype)
            r = _astype(eng, st, xd, dtype) if (k and k != xd.dtype) else ArrV(xd.shape, xd.fn, xd.dtype)
            return eng.alloc(st, ArrV(r.shape, r.fn, r.dtype))
        return f_asarray(eng, st, x, dtype=dtype)

    reg("asarray", f_asarray)
    reg("asanyarray", f_asarray)
    reg("ascontiguousarray", f_ascontig)

    def f_array(eng, st, x, dtype=None, copy=True):
        xd = eng.deref(st, x)
        k = _dtype_kind(dtype)
        if k == "obj":
            hook = getattr(eng, "object_array_hook", None)
            if hook:
                return hook(eng, st, x, xd)
            raise Unsupported("object array")
        if is_arr(xd):
            r = ArrV(xd.shape, xd.fn, xd.dtype)
        else:
            r = as_array(eng, st, xd, k)
        if k and k != r.dtype:
            r = _astype(eng, st, r, dtype)
        return eng.alloc(st, ArrV(r.shape, r.fn, r.dtype))

    reg("array", f_array)

    def shape_of(eng, st, sh):
        sh = eng.deref(st, sh)
        if isinstance(sh, tuple):
            return tuple(sh)
        return (sh,)

    def f_empty(eng, st, shape, dtype=None):
        k = _dtype_kind(dtype) or "real"
        if k == "obj":
            # object array: entries are by-value sequences (empty until stored)
            return eng.alloc(st, ArrV(shape_of(eng, st, shape), lambda ix: ListV(items=[], etype="int"), "obj"))
        return eng.alloc(st, eng.fresh_array("empty", shape_of(eng, st, shape), k))

    def f_full(val):
        def f(eng, st, shape, dtype=None):
            k = _dtype_kind(dtype) or "real"
            v = _cast(val if k != "int" else int(val), k)
            return eng.alloc(st, ArrV(shape_of(eng, st, shape), lambda ix: v, k))

        return f

    def f_like(val):
        def f(eng, st, a, dtype=None):
            ad = eng.deref(st, a)
            k = _dtype_kind(dtype) or (ad.dtype if is_arr(ad) else "real")
            v = _cast(val if k != "int" else int(val), k)
            return eng.alloc(st, ArrV(ad.shape, lambda ix: v, k))

        return f

    reg("empty", f_empty)
    reg("zeros", f_full(Fraction(0)))
    reg("ones", f_full(Fraction(1)))
    reg("zeros_like", f_like(Fraction(0)))
    reg("ones_like", f_like(Fraction(1)))

    def f_arange(eng, st, *a, dtype=None):
        a = [eng.deref(st, x) for x in a]
        if len(a) == 1:
            lo, hi = 0, a[0]
        elif len(a) == 2:
            lo, hi = a
        else:
            raise Unsupported("arange with step")
        k = _dtype_kind(dtype) or ("int" if V.is_intlike(hi) and V.is_intlike(lo) else "real")
        n = V.sub(hi, lo)
        if not V.is_intlike(n):
            n = V.ceil_int(n)
        if k == "int":
            fn = lambda ix: V.add(lo, ix[0])
        else:
            fn = lambda ix: V.to_real(V.add(lo, ix[0]))
        nn = V.ite(V.cmp(">=", n, 0), n, 0) if not isinstance(n, int) else max(n, 0)
        return eng.alloc(st, ArrV((nn,), fn, k))

    reg("arange", f_arange)

    def f_linspace(eng, st, a, b, num=50, dtype=None, endpoint=True):
        a, b, num = eng.deref(st, a), eng.deref(st, b), eng.deref(st, num)

        def fn(ix):
            i = ix[0]
            # numpy: start + i*step with step=(b-a)/(num-1); for num==1 returns start
            den = V.sub(num, 1)
            if isinstance(den, int):
                if den == 0:
                    return V.to_real(a)
                return V.add(V.to_real(a), V.mul(V.to_real(i), V.truediv(V.sub(b, a), den)))
            return V.ite(V.cmp("==", den, 0), V.to_real(a), V.add(V.to_real(a), V.mul(V.to_real(i), V.truediv(V.sub(b, a), den))))

        return eng.alloc(st, ArrV((num,), fn, "real"))

    reg("linspace", f_linspace)

    def f_logspace(eng, st, a, b, num=50):
        a, b, num = eng.deref(st, a), eng.deref(st, b), eng.deref(st, num)

        def fn(ix):
            i = ix[0]
            den = V.sub(num, 1)
            e = V.add(V.to_real(a), V.mul(V.to_real(i), V.truediv(V.sub(b, a), den)))
            return S.pow_of(eng, st, Fraction(10), e)

        eng.need_nonzero(st, V.sub(num, 1), "logspace-num")
        return eng.alloc(st, ArrV((num,), fn, "real"))

    reg("logspace", f_logspace)

    def f_stack(eng, st, arrs, axis=0):
        items = [eng.deref(st, x) for x in eng.unpack_star(st, eng.deref(st, arrs))]
        items = [as_array(eng, st, x) for x in items]
        n = len(items)
        sh = items[0].shape
        if axis == 0:
            return eng.alloc(st, ArrV((n,) + tuple(sh), lambda ix: _pick(items, ix[0], tuple(ix[1:])), items[0].dtype))
        if axis == 1 and len(sh) == 1:
            return eng.alloc(st, ArrV((sh[0], n), lambda ix: _pick(items, ix[1], (ix[0],)), items[0].dtype))
        raise Unsupported("stack axis")

    def _pick(items, k, ix):
        if isinstance(k, int):
            return items[k].fn(ix)
        out = items[-1].fn(ix)
        for j in range(len(items) - 2, -1, -1):
            out = V.ite(V.cmp("==", k, j), items[j].fn(ix), out)
        return out

    reg("stack", f_stack)
    reg("vstack", lambda eng, st, arrs: f_stack(eng, st, arrs, 0))

    # ---- elementwise math -------------------------------------------------------------
    def ew1(f, dtype=None):
        def g(eng, st, x, **kw):
            xd = eng.deref(st, x)
            r = np_map(eng, st, lambda e: f(eng, st, e), xd, dtype)
            return alloc_if(st, r)

        return g

    def _abs(eng, st, e):
        if isinstance(e, Cx):
            return S.sqrt_of(eng, st, S._abs2(e))
        return V.abs_(e)

    reg("abs", ew1(_abs, "real"))
    reg("absolute", ew1(_abs, "real"))
    reg("sqrt", ew1(lambda eng, st, e: S.sqrt_of(eng, st, e)))
    reg("cos", ew1(lambda eng, st, e: S.cos1(eng, st, e)))
    reg("sin", ew1(lambda eng, st, e: S.sin1(eng, st, e)))
    reg("exp", ew1(lambda eng, st, e: S.exp_of(eng, st, e)))
    reg("log", ew1(lambda eng, st, e: S.log_of(eng, st, e, "ln")))
    reg("log10", ew1(lambda eng, st, e: S.log_of(eng, st, e, "log10")))
    reg("arcsin", ew1(lambda eng, st, e: S.arcsin_of(eng, st, e)))
    reg("conj", ew1(lambda eng, st, e: V.conj(e)))
    reg("conjugate", ew1(lambda eng, st, e: V.conj(e)))
    reg("real", ew1(lambda eng, st, e: V.cx_of(e).re if isinstance(e, Cx) else e, "real"))
    reg("imag", ew1(lambda eng, st, e: V.cx_of(e).im if isinstance(e, Cx) else 0, "real"))
    reg("floor", ew1(lambda eng, st, e: V.to_real(V.floor_real(e))))
    reg("ceil", ew1(lambda eng, st, e: V.to_real(V.ceil_int(e))))
    reg("round", ew1(lambda eng, st, e: V.to_real(V.round_half_even(e)) if not V.is_intlike(e) else e))
    reg("rint", ew1(lambda eng, st, e: V.to_real(V.round_half_even(e))))
    reg("rad2deg", ew1(lambda eng, st, e: V.mul(V.truediv(180, S.PI(eng)), e)))
    reg("degrees", ew1(lambda eng, st, e: V.mul(V.truediv(180, S.PI(eng)), e)))
    reg("isfinite", ew1(lambda eng, st, e: _isfinite(eng, st, e), "bool"))
    reg("isnan", ew1(lambda eng, st, e: False, "bool"))

    def _isfinite(eng, st, e):
        h = getattr(eng, "isfinite_hook", None)
        if h:
            return h(eng, st, e)
        return True  # A-REAL: every value of the model is a finite real

    def f_angle(eng, st, z, deg=False):
        zd = eng.deref(st, z)
        r = S.angle_of(eng, st, zd, deg)
        return alloc_if(st, r)

    reg("angle", f_angle)

    def f_unwrap(eng, st, p):
        pd = eng.deref(st, p)
        f = eng.fresh_fn("unwrap", 1, "real")
        r = ArrV(pd.shape, lambda ix: Sym(f(V.int_term(ix[0])), "real"), "real")
        r.unwrap_of = pd
        return eng.alloc(st, r)

    reg("unwrap", f_unwrap)

    def f_power(eng, st, a, b):
        a, b = eng.deref(st, a), eng.deref(st, b)
        return alloc_if(st, np_zip(eng, st, lambda x, y: eng.power(st, x, y), a, b))

    reg("power", f_power)

    def f_divide(eng, st, a, b, out=None, where=True):
        a, b = eng.deref(st, a), eng.deref(st, b)
        wd = eng.deref(st, where)
        outd = eng.deref(st, out) if out is not None else None
        line = getattr(eng, "cur_line", 0)
        if isinstance(wd, bool) and wd is True:

            def fdiv(x, y):
                eng.need_nonzero(st, y, f"np.divide@{line}")
                return V.truediv(x, y)

            r = np_zip(eng, st, fdiv, a, b)
        else:
            if outd is None:
                raise Unsupported("np.divide(where=...) without out=")
            # shape: broadcast of all
            tmp = np_zip(eng, st, lambda x, y: (x, y), a, b)

            def fn(ix, tmp=tmp, wd=wd, outd=outd):
                x, y = tmp.fn(ix) if is_arr(tmp) else tmp
                m = wd.fn(_bix(ix, wd)) if is_arr(wd) else wd
                m = eng.truthy(st, m)
                o = outd.fn(_bix(ix, outd)) if is_arr(outd) else outd
                if m is False:
                    return o
                if not st.ghost and not isinstance(m, bool):
                    # the guard must imply a non-zero denominator
                    if isinstance(y, Cx):
                        nz = V.b_or(V.cmp("!=", y.re, 0), V.cmp("!=", y.im, 0))
                    else:
                        nz = V.cmp("!=", y, 0)
                    eng.oblige(st, "safe", f"np.divide-guard@{line}", V.b_implies(m, nz))
                elif m is True:
                    eng.need_nonzero(st, y, f"np.divide@{line}")
                q = V.truediv(x, y)
                return _ite_any(m, _cast(q, "cx") if isinstance(o, Cx) else q, o)

            shape = tmp.shape if is_arr(tmp) else (outd.shape if is_arr(outd) else ())
            if is_arr(wd):
                shape = bshape(shape, wd.shape)[0]
            r = ArrV(shape, _memo_fn(fn), outd.dtype if is_arr(outd) else "real")
        return alloc_if(st, r)

    def _bix(ix, arr):
        k = len(ix) - len(arr.shape)
        return tuple(0 if (isinstance(d, int) and d == 1) else i for i, d in zip(ix[k:], arr.shape))

    reg("divide", f_divide)
    reg("true_divide", f_divide)

    def f_nan_to_num(eng, st, x, copy=True, nan=0.0, posinf=None, neginf=None):
        xd = eng.deref(st, x)
        h = getattr(eng, "nan_to_num_hook", None)
        if h:
            r = h(eng, st, x, xd, copy, nan, posinf, neginf)
            if r is not None:
                return r
        # A-REAL: computed values are finite reals; the call is the identity on values.
        if not is_arr(xd):
            return xd
        if eng.truthy(st, copy) is False and isinstance(x, Ref):
            eng.frame_write(st, x, f"nan_to_num@{getattr(eng, 'cur_line', 0)}")
            return x
        if eng.truthy(st, copy) is False:
            # in place on an array held by value: the result is (a view of) the same buffer
            return eng.alloc(st, ArrV(xd.shape, xd.fn, xd.dtype, bufs=xd.bufs))
        return eng.alloc(st, ArrV(xd.shape, xd.fn, xd.dtype))

    reg("nan_to_num", f_nan_to_num)

    def f_all(eng, st, x, axis=None):
        return forall_elems(eng, st, x, lambda e: e)

    def f_any(eng, st, x, axis=None):
        return exists_elem(eng, st, x, lambda e: e)

    reg("all", f_all)
    reg("any", f_any)

    def f_mean(eng, st, x, axis=None, keepdims=False):
        return alloc_if(st, reduce_mean(eng, st, x, axis, bool(keepdims)))

    def f_sum(eng, st, x, axis=None, keepdims=False):
        return alloc_if(st, reduce_sum(eng, st, x, axis, bool(keepdims)))

    reg("mean", f_mean)
    reg("sum", f_sum)

    def f_minmax(is_min):
        def f(eng, st, x, axis=None):
            xd = eng.deref(st, x)
            if not is_arr(xd):
                return xd
            if len(xd.shape) != 1:
                raise Unsupported("min/max of n-D array")
            n = xd.shape[0]
            if isinstance(n, int) and n <= 8:
                out = xd.fn((0,))
                for i in range(1, n):
                    e = xd.fn((i,))
                    out = V.ite(V.cmp("<" if is_min else ">", e, out), e, out)
                return out
            m = eng.fresh("amin" if is_min else "amax", xd.dtype if xd.dtype in ("int", "real") else "real")
            k = z3.Int(f"mm!{m.t}")
            ek = xd.fn((Sym(k, "int"),))
            rel = (V.real_term(m) <= V.real_term(ek)) if is_min else (V.real_term(m) >= V.real_term(ek))
            st.fact(z3.ForAll([k], z3.Implies(z3.And(k >= 0, k < V.int_term(n)), rel)))
            w = eng.fresh("argm", "int")
            st.fact(z3.Implies(V.int_term(n) > 0, z3.And(w.t >= 0, w.t < V.int_term(n), V.real_term(xd.fn((w,))) == V.real_term(m))))
            return m

        return f

    reg("min", f_minmax(True))
    reg("max", f_minmax(False))
    reg("amin", f_minmax(True))
    reg("amax", f_minmax(False))

    def f_median(eng, st, x):
        return eng.fresh("median", "real")

    reg("median", f_median)

    def f_clip(eng, st, a, lo, hi):
        a, lo, hi = eng.deref(st, a), eng.deref(st, lo), eng.deref(st, hi)

        def c(e):
            e1 = V.ite(V.cmp("<", e, lo), _like(lo, e), e)
            return V.ite(V.cmp(">", e1, hi), _like(hi, e), e1)

        return alloc_if(st, np_map(eng, st, c, a))

    def _like(v, e):
        return V.to_real(v) if V.is_reallike(e) else v

    reg("clip", f_clip)

    def f_select(eng, st, conds, choices, default=0):
        conds = [eng.deref(st, c) for c in eng.unpack_star(st, eng.deref(st, conds))]
        choices = [eng.deref(st, c) for c in eng.unpack_star(st, eng.deref(st, choices))]
        shape = conds[0].shape

        def fn(ix):
            out = V.to_real(default) if V.is_scalar(default) else default
            for c, ch in reversed(list(zip(conds, choices))):
                cv = eng.truthy(st, c.fn(ix))
                out = V.ite(cv, ch.fn(ix) if is_arr(ch) else ch, out)
            return out

        return eng.alloc(st, ArrV(shape, fn, "real"))

    reg("select", f_select)

    def f_where(eng, st, c, a=None, b=None):
        if a is None:
            raise Unsupported("np.where(cond)")
        c, a, b = eng.deref(st, c), eng.deref(st, a), eng.deref(st, b)
        t = np_zip(eng, st, lambda x, y: (x, y), a, b)
        r = np_zip(eng, st, lambda cc, xy: _ite_any(eng.truthy(st, cc), xy[0], xy[1]), c, t)
        return alloc_if(st, r)

    reg("where", f_where)

    def f_minimum(eng, st, a, b):
        return alloc_if(st, np_zip(eng, st, lambda x, y: _ite_any(V.cmp("<=", x, y), x, y), a, b))

    def f_maximum(eng, st, a, b):
        return alloc_if(st, np_zip(eng, st, lambda x, y: _ite_any(V.cmp(">=", x, y), x, y), a, b))

    reg("minimum", f_minimum)
    reg("maximum", f_maximum)

    def f_searchsorted(eng, st, a, v, side="left"):
        if side != "left":
            raise Unsupported("searchsorted side")
        ad, v = eng.deref(st, a), eng.deref(st, v)
        n = ad.shape[0]
        i = eng.fresh("ss", "int")
        nt = V.int_term(n)
        st.fact(z3.And(i.t >= 0, i.t <= nt))
        # a[i-1] < v <= a[i]  (requires a sorted; a call_pre of the assumed contract)
        st.fact(z3.Implies(i.t > 0, V.real_term(ad.fn((V.sub(i, 1),))) < V.real_term(v)))
        st.fact(z3.Implies(i.t < nt, V.real_term(v) <= V.real_term(ad.fn((i,)))))
        eng.trusted.add("np.searchsorted(a, v, 'left') on sorted a: 0<=i<=len(a), a[i-1] < v <= a[i]")
        hk = getattr(eng, "searchsorted_hook", None)
        if hk:
            hk(eng, st, ad, v, i)
        return i

    reg("searchsorted", f_searchsorted)

    def f_isscalar(eng, st, x):
        xd = eng.deref(st, x)
        return V.is_scalar(xd) or isinstance(xd, Cx)

    reg("isscalar", f_isscalar)

    def f_iscomplexobj(eng, st, x):
        xd = eng.deref(st, x)
        return (is_arr(xd) and xd.dtype == "cx") or isinstance(xd, Cx)

    reg("iscomplexobj", f_iscomplexobj)

    def f_iinfo(eng, st, dt):
        return Opaque("iinfo", {"max": 2**63 - 1, "min": -(2**63)})

    reg("iinfo", f_iinfo)

    def f_finfo(eng, st, dt=None):
        # IEEE-754 binary64 constants (exact rationals)
        return Opaque("finfo", {"eps": Fraction(1, 2**52), "tiny": Fraction(1, 2**1022), "max": Fraction((2**53 - 1) * 2**971), "min": -Fraction((2**53 - 1) * 2**971)})

    reg("finfo", f_finfo)

    def f_errstate(eng, st, **kw):
        return Opaque("errstate")

    reg("errstate", f_errstate)

    def f_repeat(eng, st, a, n):
        a, n = eng.deref(st, a), eng.deref(st, n)
        if is_arr(a) and a.shape:
            raise Unsupported("repeat of array")
        v = a.fn(()) if is_arr(a) else a
        return eng.alloc(st, ArrV((n,), lambda ix: v, _dt(v)))

    reg("repeat", f_repeat)

    def f_pad(eng, st, a, width, mode="constant"):
        a = eng.deref(st, a)
        width = eng.deref(st, width)
        if isinstance(width, tuple):
            wl, wr = width
        else:
            wl = wr = width
        n = a.shape[0]
        for w_, nm in ((wl, "left"), (wr, "right")):
            if not st.ghost:
                eng.oblige(st, "safe", f"pad-width-{nm}@{getattr(eng, 'cur_line', 0)}", V.cmp(">=", w_, 0))
        if mode == "edge":
            if not st.ghost:
                eng.oblige(st, "safe", f"pad-edge-nonempty@{getattr(eng, 'cur_line', 0)}", V.cmp(">=", n, 1))

            def fn(ix):
                j = V.sub(ix[0], wl)
                jj = V.ite(V.cmp("<", j, 0), 0, V.ite(V.cmp(">=", j, n), V.sub(n, 1), j))
                st.ghost += 1
                try:
                    return a.fn((jj,))
                finally:
                    st.ghost -= 1

        elif mode == "constant":

            def fn(ix):
                j = V.sub(ix[0], wl)
                inside = V.b_and(V.cmp(">=", j, 0), V.cmp("<", j, n))
                st.ghost += 1
                try:
                    e = a.fn((j,))
                finally:
                    st.ghost -= 1
                return _ite_any(inside, e, _cast(Fraction(0), a.dtype) if a.dtype != "int" else 0)

        else:
            raise Unsupported(f"pad mode {mode}")
        return eng.alloc(st, ArrV((V.add(V.add(n, wl), wr),), fn, a.dtype))

    reg("pad", f_pad)

    def f_correlate(eng, st, a, v, mode="valid"):
        if mode != "valid":
            raise Unsupported("correlate mode")
        a, v = eng.deref(st, a), eng.deref(st, v)
        na, nv = a.shape[0], v.shape[0]
        if not st.ghost:
            eng.oblige(st, "safe", f"correlate-valid@{getattr(eng, 'cur_line', 0)}", V.cmp(">=", na, nv))
        # c[k] = sum_n a[n+k] * v[n],  k = 0 .. na-nv   (real v)
        return eng.alloc(
            st,
            ArrV((V.add(V.sub(na, nv), 1),), lambda ix: S.sum_of_terms(eng, st, 0, nv, lambda n: V.mul(a.fn((V.add(n, ix[0]),)), v.fn((n,)))), _dt2(a, v)),
        )

    reg("correlate", f_correlate)

    def f_einsum(eng, st, subs, *ops):
        if subs != "ij,ij->i":
            raise Unsupported(f"einsum {subs!r}")
        a, b = [eng.deref(st, o) for o in ops]
        return eng.alloc(st, ArrV((a.shape[0],), lambda ix: S.sum_of_terms(eng, st, 0, a.shape[1], lambda j: V.mul(a.fn((ix[0], j)), b.fn((ix[0], j)))), _dt2(a, b)))

    reg("einsum", f_einsum)

    lib = ModuleV("numpy.lib")
    st_ = ModuleV("numpy.lib.stride_tricks")

    def f_swv(eng, st, a, w):
        a, w = eng.deref(st, a), eng.deref(st, w)
        n = a.shape[0]
        return eng.alloc(st, ArrV((V.add(V.sub(n, w), 1), w), lambda ix: a.fn((V.add(ix[0], ix[1]),)), a.dtype))

    st_.attrs["sliding_window_view"] = Builtin("numpy.lib.stride_tricks.sliding_window_view", f_swv, True)
    lib.attrs["stride_tricks"] = st_
    np.attrs["lib"] = lib
    np.attrs["linalg"] = ModuleV("numpy.linalg")
    np.attrs["fft"] = ModuleV("numpy.fft")
    np.attrs["random"] = ModuleV("numpy.random")

    def f_kaiser(eng, st, M, beta):
        return _window(eng, st, "kaiser", M, beta)

    def f_hanning(eng, st, M):
        return _window(eng, st, "hanning", M, None)

    def _window(eng, st, name, M, beta):
        M = eng.deref(st, M)
        if beta is None:
            f = eng.uf(f"win_{name}", z3.IntSort(), z3.IntSort(), z3.RealSort())
            return eng.alloc(st, ArrV((M,), lambda ix: Sym(f(V.int_term(M), V.int_term(ix[0])), "real"), "real"))
        f = eng.uf(f"win_{name}", z3.IntSort(), z3.RealSort(), z3.IntSort(), z3.RealSort())
        bt = V.real_term(eng.deref(st, beta))
        return eng.alloc(st, ArrV((M,), lambda ix: Sym(f(V.int_term(M), bt, V.int_term(ix[0])), "real"), "real"))

    reg("kaiser", f_kaiser)
    reg("hanning", f_hanning)

    # builtins that numpy model needs from python
    B["object"] = Opaque("class:object")

    # method dispatch for arrays
    from . import pymodel

    orig = pymodel.call_method

    def call_method(eng, st, bm, args, kwargs, line=0):
        obj = eng.deref(st, bm.obj)
        if is_arr(obj):
            r = array_method(eng, st, bm, args, kwargs, line)
            return eng.alloc(st, r) if is_arr(r) else r
        return orig(eng, st, bm, args, kwargs, line)

    pymodel.call_method = call_method


def _memo_fn(fn):
    cache = {}

    def g(ix):
        key = tuple(i if isinstance(i, int) else (V.term(i).get_id() if V.is_scalar(i) else id(i)) for i in ix)
        if key not in cache:
            cache[key] = fn(ix)
        return cache[key]

    return g


def _scalar_cast(eng, st, dn, x):
    x = eng.deref(st, x)
    if dn.startswith("int"):
        return V.trunc_int(x)
    if dn.startswith("float"):
        return V.to_real(x)
    if dn.startswith("complex"):
        return V.cx_of(V.as_arith(x))
    if dn == "bool_":
        return eng.truthy(st, x)
    raise Unsupported(dn)
