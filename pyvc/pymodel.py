"""Models of Python builtins, ``math`` and container methods."""
from __future__ import annotations

import ast
from fractions import Fraction

import z3

from . import values as V
from .values import Sym, Cx, Opaque, StrV, Unsupported, VerifError
from .heap import Ref, ListV, DictV, ArrV, ObjV, Closure, Builtin, ModuleV, BoundMethod, SliceV, ExcV
from .engine import _RangeV, _ZipV, _EnumV, _Forked, _Raised, _MaybeNone


def install(eng):
    B = eng.builtins
    mods = B.setdefault("__modules__", {})

    def reg(name, fn, wants_state=True):
        B[name] = Builtin(name, fn, wants_state)
        return B[name]

    # ---- numeric conversions ---------------------------------------------------
    def b_int(eng, st, x=0):
        x = eng.deref(st, x)
        if isinstance(x, ArrV):
            x = _only_element(eng, st, x)
        if isinstance(x, str):
            return int(x)
        return V.trunc_int(x)

    def b_float(eng, st, x=0):
        x = eng.deref(st, x)
        if isinstance(x, ArrV):
            x = _only_element(eng, st, x)
        if isinstance(x, str):
            if x in ("inf", "-inf", "nan"):
                raise Unsupported("non-finite float")
            return Fraction(x)
        if isinstance(x, Cx):
            raise Unsupported("float(complex)")
        return V.to_real(x)

    def b_bool(eng, st, x=False):
        return eng.truthy(st, x)

    def b_str(eng, st, x=""):
        if isinstance(x, str):
            return x
        return StrV()

    def b_complex(eng, st, re=0, im=0):
        re, im = eng.deref(st, re), eng.deref(st, im)
        if isinstance(re, Cx):
            return re
        return Cx(V.to_real(re), V.to_real(im))

    def b_round(eng, st, x, nd=None):
        if nd is not None:
            raise Unsupported("round(x, n)")
        return V.round_half_even(eng.deref(st, x))

    def b_abs(eng, st, x):
        x = eng.deref(st, x)
        if isinstance(x, Cx):
            from .spec import sqrt_of

            return sqrt_of(eng, st, V.add(V.mul(x.re, x.re), V.mul(x.im, x.im)))
        if isinstance(x, ArrV):
            return eng.builtins["numpy.abs"].fn(eng, st, x)
        return V.abs_(x)

    def b_minmax(is_min):
        def f(eng, st, *xs, **kw):
            if len(xs) == 1:
                c = eng.deref(st, xs[0])
                if isinstance(c, ArrV):
                    return eng.builtins["numpy.min" if is_min else "numpy.max"].fn(eng, st, c)
                xs = eng.unpack_star(st, c)
            xs = [eng.deref(st, x) for x in xs]
            # +-inf operands (np.inf) are absorbed
            drop = "-inf" if not is_min else "inf"
            keep = [x for x in xs if not (isinstance(x, Opaque) and x.name == drop)]
            if any(isinstance(x, Opaque) and x.name in ("inf", "-inf") for x in keep):
                raise Unsupported("min/max dominated by an infinite operand")
            xs = keep
            out = xs[0]
            for x in xs[1:]:
                if isinstance(x, float):
                    x = V.norm_num(x)
                c = V.cmp("<" if is_min else ">", x, out)
                # Python keeps the first on ties; value-wise identical
                out = V.ite(c, x, out) if not isinstance(c, bool) else (x if c else out)
            return out

        return f

    def b_len(eng, st, x):
        x = eng.deref(st, x)
        if isinstance(x, (tuple, str)):
            return len(x)
        if isinstance(x, ListV):
            return x.n
        if isinstance(x, DictV):
            return len(x.d)
        if isinstance(x, ArrV):
            if not x.shape:
                raise Unsupported("len() of 0-d array")
            return x.shape[0]
        raise Unsupported(f"len({x!r})")

    def b_range(eng, st, *a):
        a = [eng.deref(st, x) for x in a]
        if len(a) == 1:
            return _RangeV(0, a[0], 1)
        if len(a) == 2:
            return _RangeV(a[0], a[1], 1)
        return _RangeV(a[0], a[1], a[2])

    def b_prange(eng, st, *a):
        r = b_range(eng, st, *a)
        r.parallel = True
        return r

    def b_zip(eng, st, *a):
        return _ZipV(list(a))

    def b_enumerate(eng, st, a, start=0):
        return _EnumV(a, start)

    def b_isinstance(eng, st, x, cls):
        xd = eng.deref(st, x)
        names = _class_names(eng, st, cls)
        tn = _type_names(xd)
        if tn is None:
            raise Unsupported(f"isinstance of {xd!r}")
        return bool(tn & names)

    def b_callable(eng, st, x):
        return isinstance(x, (Closure, Builtin, BoundMethod)) or (isinstance(x, Opaque) and x.attrs.get("callable", False))

    def b_getattr(eng, st, obj, name, default=None):
        if not isinstance(name, str):
            raise Unsupported("getattr with symbolic name")
        o = eng.deref(st, obj)
        if name == "__name__":
            if isinstance(o, Closure):
                return o.name
            if isinstance(o, Opaque):
                return o.attrs.get("__name__", default)
            if isinstance(o, Builtin):
                return o.name.split(".")[-1]
        rs = eng.getattr_fork(st, obj, name)
        if len(rs) == 1:
            return rs[0][1]
        return _Forked(rs)

    def b_dict(eng, st, *a, **kw):
        d = {}
        if a:
            src = eng.deref(st, a[0])
            if isinstance(src, DictV):
                d.update(src.d)
            else:
                raise Unsupported("dict(iterable)")
        d.update(kw)
        return eng.alloc(st, DictV(d))

    def b_list(eng, st, *a):
        if not a:
            return eng.alloc(st, ListV(items=[]))
        src = eng.deref(st, a[0])
        seq = eng.concrete_iter(st, src)
        if seq is not None:
            return eng.alloc(st, ListV(items=seq))
        n, g = eng.sym_iter(st, src)
        return eng.alloc(st, ListV(n=n, fn=g))

    def b_tuple(eng, st, *a):
        if not a:
            return ()
        seq = eng.concrete_iter(st, eng.deref(st, a[0]))
        if seq is None:
            raise Unsupported("tuple of symbolic length")
        return tuple(seq)

    def b_set(eng, st, *a):
        raise Unsupported("set()")

    def b_sorted(eng, st, x, key=None, reverse=False):
        seq = eng.concrete_iter(st, eng.deref(st, x))
        if seq is None or not all(isinstance(s, (str, int)) for s in seq):
            raise Unsupported("sorted of symbolic data")
        return eng.alloc(st, ListV(items=sorted(seq, reverse=bool(reverse))))

    def b_all(eng, st, x):
        xd = eng.deref(st, x)
        seq = eng.concrete_iter(st, xd)
        if seq is not None:
            return V.b_and(*[eng.truthy(st, s) for s in seq])
        n, g = eng.sym_iter(st, xd)
        k = eng.fresh("k", "int")
        body = eng.truthy(st, g(k))
        return Sym(z3.ForAll([k.t], z3.Implies(z3.And(k.t >= 0, k.t < V.int_term(n)), V.bool_term(body))), "bool")

    def b_any(eng, st, x):
        xd = eng.deref(st, x)
        seq = eng.concrete_iter(st, xd)
        if seq is not None:
            return V.b_or(*[eng.truthy(st, s) for s in seq])
        n, g = eng.sym_iter(st, xd)
        k = eng.fresh("k", "int")
        body = eng.truthy(st, g(k))
        return Sym(z3.Exists([k.t], z3.And(k.t >= 0, k.t < V.int_term(n), V.bool_term(body))), "bool")

    def b_sum(eng, st, x, start=0):
        seq = eng.concrete_iter(st, eng.deref(st, x))
        if seq is None:
            raise Unsupported("sum of symbolic length")
        out = start
        for s in seq:
            out = V.add(out, s)
        return out

    def b_type(eng, st, x):
        return Opaque("type", {"__name__": StrV()})

    def b_super(eng, st, *a):
        raise Unsupported("super()")

    for name, fn in [
        ("int", b_int),
        ("float", b_float),
        ("bool", b_bool),
        ("str", b_str),
        ("complex", b_complex),
        ("round", b_round),
        ("abs", b_abs),
        ("min", b_minmax(True)),
        ("max", b_minmax(False)),
        ("len", b_len),
        ("range", b_range),
        ("zip", b_zip),
        ("enumerate", b_enumerate),
        ("isinstance", b_isinstance),
        ("callable", b_callable),
        ("getattr", b_getattr),
        ("dict", b_dict),
        ("list", b_list),
        ("tuple", b_tuple),
        ("sorted", b_sorted),
        ("all", b_all),
        ("any", b_any),
        ("sum", b_sum),
        ("type", b_type),
        ("repr", b_str),
    ]:
        reg(name, fn)
    for exc in ("ValueError", "TypeError", "RuntimeError", "KeyError", "Exception", "AttributeError", "NotImplementedError", "ZeroDivisionError", "IndexError"):
        B[exc] = Opaque(f"exc:{exc}")
    B["object"] = Opaque("class:object")
    B["None"] = None
    B["True"] = True
    B["False"] = False

    # ---- math ---------------------------------------------------------------------
    def m_ceil(eng, st, x):
        return V.ceil_int(eng.deref(st, x))

    def m_floor(eng, st, x):
        return V.floor_real(eng.deref(st, x))

    from .spec import sqrt_of, cos1, sin1, log_of, exp_of, PI

    math = ModuleV("math")
    math.attrs.update(
        {
            "ceil": reg("math.ceil", m_ceil),
            "floor": reg("math.floor", m_floor),
            "sqrt": reg("math.sqrt", lambda eng, st, x: sqrt_of(eng, st, eng.deref(st, x))),
            "cos": reg("math.cos", lambda eng, st, x: cos1(eng, st, eng.deref(st, x))),
            "sin": reg("math.sin", lambda eng, st, x: sin1(eng, st, eng.deref(st, x))),
            "log": reg("math.log", lambda eng, st, x: log_of(eng, st, eng.deref(st, x), "ln")),
            "log10": reg("math.log10", lambda eng, st, x: log_of(eng, st, eng.deref(st, x), "log10")),
            "exp": reg("math.exp", lambda eng, st, x: exp_of(eng, st, eng.deref(st, x))),
            "pi": PI(eng),
            "isfinite": reg("math.isfinite", lambda eng, st, x: True),
        }
    )
    mods["math"] = math

    # ---- time / sys / logging ---------------------------------------------------------
    tm = ModuleV("time")
    tm.attrs["perf_counter"] = reg("time.perf_counter", lambda eng, st: eng.fresh("t", "real"))
    mods["time"] = tm
    sysm = ModuleV("sys")

    def sys_exit(eng, st, code=0):
        return _Forked([(st, _Raised(ExcV("SystemExit", (code,))))])

    sysm.attrs["exit"] = reg("sys.exit", sys_exit)
    mods["sys"] = sysm
    mods["logging"] = ModuleV("logging")
    mods["numba"] = ModuleV("numba")
    mods["numba"].attrs["prange"] = reg("numba.prange", b_prange)
    B["_prange"] = B["numba.prange"]
    B["numba.prange"] = mods["numba"].attrs["prange"]


def _only_element(eng, st, x):
    if all(isinstance(d, int) for d in x.shape):
        tot = 1
        for d in x.shape:
            tot *= d
        if tot == 1:
            return x.fn(tuple(0 for _ in x.shape))
    raise Unsupported("scalar conversion of a multi-element array")


def _class_names(eng, st, cls):
    if isinstance(cls, tuple):
        out = set()
        for c in cls:
            out |= _class_names(eng, st, c)
        return out
    if isinstance(cls, Builtin):
        return {cls.name}
    if isinstance(cls, Opaque):
        n = cls.name
        if n.startswith("class:"):
            return {n.split(":")[-1]}
        return {n}
    raise Unsupported(f"isinstance class {cls!r}")


def _type_names(x):
    if isinstance(x, bool):
        return {"bool", "int"}
    if isinstance(x, int):
        return {"int", "numpy.integer"}
    if isinstance(x, Fraction):
        return {"float"}
    if isinstance(x, Sym):
        return {"int": {"int", "numpy.integer"}, "real": {"float"}, "bool": {"bool", "int"}}[x.kind]
    if isinstance(x, (str, StrV)):
        return {"str"}
    if isinstance(x, tuple):
        return {"tuple"}
    if isinstance(x, ListV):
        return {"list"}
    if isinstance(x, DictV):
        return {"dict"}
    if isinstance(x, ArrV):
        return {"numpy.ndarray", "ndarray"}
    if x is None:
        return {"NoneType"}
    if isinstance(x, ObjV):
        return {x.cls}
    if isinstance(x, Cx):
        return {"complex"}
    if isinstance(x, (Closure, Builtin, Opaque)):
        return {"function"}
    return None


def call_method(eng, st, bm, args, kwargs, line=0):
    obj = eng.deref(st, bm.obj)
    name = bm.name
    if isinstance(obj, ListV):
        if name == "append":
            (v,) = args
            vd = eng.deref(st, v)
            if isinstance(vd, ListV) and not obj.concrete():
                v = vd  # nested lists are kept by value (the inner list is not aliased elsewhere)
            elif isinstance(vd, ArrV) and not obj.concrete() and (obj.etype or "").startswith("list[") and len(vd.shape) == 1:
                # a 1-D array appended to a list declared list[list[T]]: kept by value as its element sequence
                v = ListV(n=vd.shape[0], fn=lambda k, vd=vd: vd.fn((k,)), etype=obj.etype[5:-1])
            st.heap[bm.obj.loc] = obj.append(v)
            return None
        if name == "extend" and obj.concrete():
            other = eng.concrete_iter(st, eng.deref(st, args[0]))
            if other is not None:
                st.heap[bm.obj.loc] = ListV(items=obj.items + other, etype=obj.etype)
                return None
        if name == "copy" and obj.concrete():
            return eng.alloc(st, ListV(items=obj.items))
        if name == "index" or name == "count":
            raise Unsupported(f"list.{name}")
    if isinstance(obj, DictV):
        if name == "get":
            hook = getattr(eng, "dict_get_hook", None)
            if hook:
                r = hook(eng, st, bm.obj, obj, args[0], default=(args[1] if len(args) > 1 else None), is_get=True)
                if r is not None:
                    return r
            k = eng.dict_key(args[0])
            if k in obj.d:
                return obj.d[k]
            return args[1] if len(args) > 1 else kwargs.get("default")
        if name == "keys":
            return tuple(obj.d.keys())
        if name == "values":
            return tuple(obj.d.values())
        if name == "items":
            return tuple((k, v) for k, v in obj.d.items())
        if name == "copy":
            return eng.alloc(st, DictV(obj.d))
        if name == "update":
            d = dict(obj.d)
            if args:
                d.update(eng.deref(st, args[0]).d)
            d.update(kwargs)
            st.heap[bm.obj.loc] = DictV(d)
            return None
        if name == "pop":
            k = eng.dict_key(args[0])
            d = dict(obj.d)
            if k in d:
                v = d.pop(k)
                st.heap[bm.obj.loc] = DictV(d)
                return v
            if len(args) > 1:
                return args[1]
            raise Unsupported("dict.pop of missing key")
        if name == "setdefault":
            k = eng.dict_key(args[0])
            if k in obj.d:
                return obj.d[k]
            d = dict(obj.d)
            d[k] = args[1] if len(args) > 1 else None
            st.heap[bm.obj.loc] = DictV(d)
            return d[k]
    if isinstance(obj, str):
        if name == "lower":
            return obj.lower()
        if name == "upper":
            return obj.upper()
        if name == "startswith":
            return obj.startswith(args[0])
        if name == "endswith":
            return obj.endswith(args[0])
        if name == "join":
            return StrV()
        if name == "format":
            return StrV()
    if isinstance(obj, ObjV):
        node, mod = eng.find_method(obj.cls, name)
        if node is not None:
            clo = Closure(node, None, module=mod, name=f"{obj.cls}.{name}")
            key = f"{mod.relname}:{obj.cls}.{name}"
            real = eng.cur_state
            if key in eng.contracts and not real.ghost:
                from .modular import call_by_contract

                return _Forked(call_by_contract(eng, real, key, clo, [bm.obj] + list(args), dict(kwargs), line))
            return _Forked(eng.call_closure(real, clo, [bm.obj] + list(args), dict(kwargs), line))
    if isinstance(obj, Cx) and name == "item":
        return obj
    if V.is_scalar(obj) and name == "item":
        return obj
    if isinstance(obj, Opaque):
        h = eng.call_hooks.get(f"{obj.name}.{name}")
        if h is None:
            base = obj.name.split("#")[0]
            h = eng.call_hooks.get(f"{base}.{name}")
        if h:
            return h(eng, st, obj, args, kwargs, line)
    raise Unsupported(f"method {name} of {obj!r} (line {line})")
