"""Contract data model (no z3 import: this module is also loaded by the run-time
harness under /venv/bin/python)."""
from __future__ import annotations


def norm_clauses(c):
    if c is None:
        return []
    if isinstance(c, dict):
        return list(c.items())
    out = []
    for i, x in enumerate(c):
        if isinstance(x, (tuple, list)):
            out.append((x[0], x[1]))
        else:
            out.append((f"c{i}", x))
    return out


class Unit:
    """one function under contract"""

    def __init__(self, id, module, func, props, params=None, ghosts=None, requires=None, ensures=None, loops=None, raises=None, setup=None, returns=None, modifies=None, cites=None, notes=None, inline=None, post_hook=None, assumes=None, call_post=None, opts=None, sampler=None, runtime=None, kind="function"):
        self.id = id
        self.module = module
        self.func = func
        self.props = list(props)
        self.params = params or {}
        self.ghosts = ghosts or {}
        self.requires = norm_clauses(requires)
        self.ensures = norm_clauses(ensures)
        self.loops = loops or {}
        self.raises = raises or {}
        self.setup = setup
        self.returns = returns
        self.modifies = modifies or []
        self.cites = cites or []
        self.notes = notes
        self.inline = inline or []
        self.post_hook = post_hook
        self.assumes = norm_clauses(assumes)
        self.call_post = call_post
        self.opts = opts or {}
        self.sampler = sampler
        self.runtime = runtime
        self.kind = kind

    @property
    def key(self):
        return f"{self.module}:{self.func}"


