"""Sidecar contracts: data model, clause evaluation, proof of one unit."""
from __future__ import annotations

import ast
import time
from fractions import Fraction

import z3

from . import values as V
from .values import Sym, Cx, Opaque, StrV, Unsupported, VerifError
from .heap import Ref, ListV, DictV, ArrV, ObjV, Closure, Builtin
from .engine import Engine, State, Outcome, number_loops, _Raised

_parse_cache = {}


def parse_expr(text):
    if text not in _parse_cache:
        _parse_cache[text] = ast.parse(text.strip(), mode="eval").body
    return _parse_cache[text]


def eval_text(eng, st, fid, text, extra=None):
    """evaluate a contract clause in ghost mode in the scope of frame ``fid``"""
    from .engine import CurState

    if isinstance(st, CurState):
        st = eng.cur_state
    eng.cur_state = st
    node = parse_expr(text) if isinstance(text, str) else text
    sub = eng.new_frame(st, parent=fid, module=st.frames[fid]["module"] if fid in st.frames else None)
    gf = getattr(eng, "ghost_env", None)
    if gf:
        for k, v in gf.items():
            eng.setvar(st, sub, k, v)
    for k, v in st.tags.get("ghosts", {}).items():
        eng.setvar(st, sub, k, v)
    if extra:
        for k, v in extra.items():
            eng.setvar(st, sub, k, v)
    st.ghost += 1
    try:
        gd = getattr(eng, "ghost_defs", None)
        if gd:
            for k, t in gd.items():
                if isinstance(t, dict):
                    eng.setvar(st, sub, k, _opaque_def(eng, st, sub, k, t))
                else:
                    try:
                        eng.setvar(st, sub, k, eng.eval1(parse_expr(t), st, sub))
                    except Unsupported as e_:
                        # a value definition over ghosts that are not bound yet (callee ghosts are
                        # evaluated one by one): left undefined for this clause
                        if "unbound name" not in str(e_):
                            raise
        try:
            rs = eng.eval_fork(node, st, sub)
        except Unsupported as e:
            if "[in clause" not in str(e):
                raise Unsupported(f"{e} [in clause: {text if isinstance(text, str) else '<ast>'}]")
            raise
    finally:
        st.ghost -= 1
    if len(rs) != 1:
        raise Unsupported(f"contract clause forks: {text}")
    s2, v = rs[0]
    if isinstance(v, _Raised):
        raise Unsupported(f"contract clause raises: {text}")
    return eng.deref(st, v)


def _opaque_def(eng, st, sub, name, spec):
    """ghost function kept opaque: applications are uninterpreted; the defining axiom
    forall args: name(args) == body(args) is a hypothesis only of obligations whose label
    contains one of spec["reveal"] (hide definitions the proof does not need)"""
    import z3
    from .heap import Builtin

    clo = eng.eval1(parse_expr(spec["opaque"]), st, sub)
    table = eng.__dict__.setdefault("opaque_fns", {})

    def kind_of(a):
        if isinstance(a, bool):
            raise Unsupported("opaque ghost function applied to a bool")
        if isinstance(a, int):
            return "int"
        if isinstance(a, Fraction):
            return "real"
        if isinstance(a, Sym) and a.kind in ("int", "real"):
            return a.kind
        raise Unsupported(f"opaque ghost function {name} applied to {a!r}")

    def call(eng_, st_, *args):
        args = [eng_.deref(st_, a) for a in args]
        kinds = tuple(kind_of(a) for a in args)
        key = (eng_.unit, name, kinds)
        ent = table.get(key)
        if ent is None:
            bv = [z3.Const(f"{name}!x{i}", z3.IntSort() if k_ == "int" else z3.RealSort()) for i, k_ in enumerate(kinds)]
            rs = eng_.call_closure(st_, clo, [Sym(v, k_) for v, k_ in zip(bv, kinds)], {})
            if len(rs) != 1:
                raise Unsupported(f"opaque ghost function {name}: body forks")
            body = V.as_arith(eng_.deref(st_, rs[0][1]))
            if not isinstance(body, Sym):
                raise Unsupported(f"opaque ghost function {name}: constant body")
            f = z3.Function(f"{name}!op{len(table)}", *[v.sort() for v in bv], body.t.sort())
            ax = z3.ForAll(bv, f(*bv) == body.t, patterns=[f(*bv)])
            ent = (f, body.kind, ax, list(spec.get("reveal", [])))
            table[key] = ent
        f, rk, ax, rv = ent
        zargs = [V.int_term(a) if k_ == "int" else V.real_term(a) for a, k_ in zip(args, kinds)]
        return Sym(f(*zargs), rk)

    return Builtin(name, call, True)


from .unitdef import Unit, norm_clauses  # noqa: E402,F401


def make_value(eng, st, name, decl, genv):
    """symbolic value for a parameter declaration"""
    if isinstance(decl, str):
        if decl in ("int", "real", "bool", "cx"):
            return eng.fresh(name, decl)
        if decl.startswith("list["):
            from .loops import fresh_list

            lv = fresh_list(eng, name, decl)
            st.assume(V.cmp(">=", lv.n, 0))
            return eng.alloc(st, lv)
        if decl.startswith("opaque:"):
            return Opaque(decl.split(":", 1)[1], {"callable": True})
        raise Unsupported(f"param decl {decl!r}")
    if isinstance(decl, tuple) and decl[0] == "arr":
        _, dtype, shape = decl
        dims = []
        for d in shape:
            if isinstance(d, int):
                dims.append(d)
            else:
                if d in genv:
                    dims.append(genv[d])
                elif getattr(eng, "_cur_vars", None) is not None and d in eng._cur_vars:
                    dims.append(eng._cur_vars[d])
                else:
                    raise Unsupported(f"array dimension {d!r} of {name} is not declared yet")
        a = eng.fresh_array(name, tuple(dims), dtype)
        return eng.alloc(st, a)
    if isinstance(decl, tuple) and decl[0] == "const":
        return decl[1]
    if callable(decl):
        return decl(eng, st, name, genv)
    raise Unsupported(f"param decl {decl!r}")


def prove_unit(eng: Engine, unit: Unit, prop: str):
    """symbolically execute the unit's real source and emit its obligations"""
    eng.unit = unit.id
    eng.prop = prop
    mod = eng.module(unit.module)
    if unit.func not in mod.functions:
        raise Unsupported(f"function {unit.func} not found in {unit.module}")
    fnode = mod.functions[unit.func]
    eng.loop_ord = number_loops(fnode)
    eng.loop_specs = dict(unit.loops)
    if unit.opts.get("lazy_loops"):
        eng.loop_specs.update(unit.opts["lazy_loops"](mod))
    declared = set(eng.loop_specs)
    present = set(eng.loop_ord.values())
    for k in declared - present:
        raise Unsupported(f"contract of {unit.id} names loop {k!r} which is not in the source (loops: {sorted(present)})")
    eng.merge_paths = unit.opts.get("merge", True)
    eng.nested_prefix = f"{unit.module}:{unit.func}"
    eng.sat_level = unit.opts.get("sat_level", 0)
    st = State()
    fid = eng.new_frame(st, parent=None, module=mod)
    genv = {}
    eng.ghost_env = genv
    eng.ghost_defs = unit.opts.get("ghost_defs")
    for g, kind in unit.ghosts.items():
        k = kind[0] if isinstance(kind, tuple) else kind
        genv[g] = eng.fresh(g, k)
    if unit.setup:
        unit.setup(eng, st, fid, genv)
    a = fnode.args
    eng._cur_vars = st.frames[fid]["vars"]
    pnames = [p.arg for p in a.posonlyargs + a.args + a.kwonlyargs]
    # contract declaration order first (array dimensions may name other parameters)
    pnames = [p for p in unit.params if p in pnames] + [p for p in pnames if p not in unit.params]
    for p in pnames:
        if p in st.frames[fid]["vars"]:
            continue
        if p in unit.params:
            eng.setvar(st, fid, p, make_value(eng, st, p, unit.params[p], genv))
        else:
            # default value from the signature
            idx = [q.arg for q in a.posonlyargs + a.args].index(p) if p in [q.arg for q in a.posonlyargs + a.args] else None
            dflt = None
            if idx is not None:
                di = idx - (len(a.posonlyargs + a.args) - len(a.defaults))
                if di >= 0:
                    dflt = a.defaults[di]
            else:
                ki = [q.arg for q in a.kwonlyargs].index(p)
                dflt = a.kw_defaults[ki]
            if dflt is None:
                raise Unsupported(f"unit {unit.id}: parameter {p!r} has no declaration")
            eng.setvar(st, fid, p, eng.eval1(dflt, st, fid))
    if a.kwarg is not None and a.kwarg.arg not in st.frames[fid]["vars"]:
        if a.kwarg.arg in unit.params:
            eng.setvar(st, fid, a.kwarg.arg, make_value(eng, st, a.kwarg.arg, unit.params[a.kwarg.arg], genv))
    for g, kind in unit.ghosts.items():
        if isinstance(kind, tuple):
            gv = V.cmp("==", genv[g], eval_text(eng, st, fid, kind[1]))
            st.assume(gv)
            st.name_hyp(f"pre:ghost.{g}", gv)
    for label, text in unit.requires:
        rv = eng.truthy(st, eval_text(eng, st, fid, text))
        st.assume(rv)
        st.name_hyp(f"pre:{label}", rv)
    eng.lemma_from = dict(unit.opts.get("lemma_from") or {})
    for _ls in (eng.loop_specs or {}).values():
        if isinstance(_ls, dict) and _ls.get("lemma_from"):
            eng.lemma_from.update(_ls["lemma_from"])
    eng.cover(st, "pre")
    entry = st.copy()
    eng.entry_state = entry
    eng.entry_fid = fid
    genv.update(_olds(eng, unit, entry, fid))  # old_<param> is visible to loop invariants too
    eng.cuts, eng.cuts_hit = {}, set()
    if unit.opts.get("cuts"):
        # block contracts on straight-line code of the function: assert, forget, assume
        from .loops import register_cuts

        register_cuts(eng, fnode.body, unit.opts["cuts"])
    outs = eng.exec_block(fnode.body, st, fid)
    if unit.opts.get("cuts"):
        for c_ in sorted(set(unit.opts["cuts"]) - eng.cuts_hit):
            eng.notes.append(f"{unit.id}: cut statement {c_!r} not found (hint skipped)")
    eng.cuts, eng.cuts_hit = {}, set()
    nret = 0
    for s2, oc in outs:
        if oc.kind == "raise":
            _check_raise(eng, unit, s2, fid, oc.value, entry)
            continue
        if oc.kind not in ("return", "normal"):
            raise Unsupported(f"{oc.kind} escapes {unit.func}")
        nret += 1
        res = oc.value if oc.kind == "return" else None
        eng.cover(s2, f"return")
        extra = {"result": res}
        extra.update(_olds(eng, unit, entry, fid))
        if unit.post_hook:
            unit.post_hook(eng, s2, fid, res, entry)
        for cite in unit.cites:
            # instantiate a lemma proved under its own unit (generic in its array/scalar parameters)
            lem = eng.contracts_all.get(cite["lemma"])
            if lem is None:
                raise Unsupported(f"cited lemma {cite['lemma']} has no unit")
            binds = {k: eval_text(eng, s2, fid, t, extra) for k, t in cite["bind"].items()}
            env2 = dict(extra)
            env2.update(binds)
            for label, text in lem.ensures:
                val = eval_text(eng, s2, fid, text, env2)
                s2.assume(eng.truthy(s2, val))
            eng.trusted_calls.add(f"lemma {cite['lemma']} (proved by induction under its own unit)")
        ens = list(unit.ensures)
        if unit.opts.get("lazy_lemmas"):
            # cut lemmas over the function's locals (role-bound from the source), proved first
            ens = [(l, t) for l, t in unit.opts["lazy_lemmas"](mod).items()] + ens
        for label, text in ens:
            val = eval_text(eng, s2, fid, text, extra)
            eng.oblige(s2, "lemma" if label.startswith("lemma.") else "post", label, eng.truthy(s2, val))
    if nret == 0 and not unit.opts.get("may_not_return"):
        eng.notes.append(f"{unit.id}: no returning path")
    return outs


def _olds(eng, unit, entry, fid):
    """old_<param>: value of each parameter's referent at entry (by-value snapshot)"""
    out = {}
    for name, v in entry.frames[fid]["vars"].items():
        out["old_" + name] = entry.heap[v.loc] if isinstance(v, Ref) and isinstance(entry.heap[v.loc], (ArrV, ListV)) else v
    return out


def _check_raise(eng, unit, st, fid, exc, entry):
    spec = unit.raises.get(exc.cls)
    if spec is None:
        spec = unit.raises.get("*")
    label = f"no_raise:{exc.cls}@{exc.args[0] if exc.args else ''}"
    if spec is None:
        # under the precondition no exception may escape: the path must be infeasible
        eng.oblige(st, "safe", label, False)
        return
    if spec is True:
        return
    extra = _olds(eng, unit, entry, fid)
    val = eval_text(eng, st, fid, spec, extra)
    eng.oblige(st, "safe", f"raise_only_if:{exc.cls}@{exc.args[0] if exc.args else ''}", eng.truthy(st, val))
