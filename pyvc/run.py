"""Running units, solving obligations, evidence."""
from __future__ import annotations
import ast, os, time
import z3
from . import solve, spec
from .heap import Closure

SPEC_FILE = os.path.join(os.path.dirname(os.path.dirname(os.path.abspath(__file__))), "specs", "spec_lib.py")


def load_specs(eng, path=SPEC_FILE):
    with open(path) as fh:
        tree = ast.parse(fh.read())
    frame = {}
    for node in tree.body:
        if isinstance(node, ast.FunctionDef):
            frame[node.name] = Closure(node, None, module=None, name=node.name, ghost=True)
    eng.spec_frame = frame


def build_tasks(eng, obs, level=0):
    from . import vcprep

    tasks = []
    for ob in obs:
        t0 = time.time()
        full, core = vcprep.prepare(eng, ob, level=level)
        ob.prep_time = time.time() - t0
        has_q = len(full) != len(core)
        ob.smt_full = vcprep.to_smt2(full) if has_q else None
        ob.smt_core = vcprep.to_smt2(core)
        tasks.append((ob.name, ob.smt_full, ob.smt_core, "prove" if ob.kind != "cover" else "cover"))
    return tasks


def solve_all(eng, obs=None, timeout_ms=20000, cvc5_all=False, seed=0):
    obs = eng.obligations if obs is None else obs
    pre = [o for o in obs if (o.meta or {}).get("decided")]
    obs = [o for o in obs if not (o.meta or {}).get("decided")]
    for o in pre:
        o.smt_full = o.smt_core = None
    t0 = time.time()
    import os

    budget = float(os.environ.get("PYVC_BUDGET_S", "1500"))
    deadline = t0 + budget
    res = solve.discharge_obligations(eng, obs, level=0, timeout_ms=timeout_ms, seed=seed, cvc5=("all" if cvc5_all else "unknown"), deadline=deadline)
    for ob, r in zip(obs, res):
        ob.status, ob.time, ob.backend, ob.model, ob.detail = r["status"], r["time"], r["backend"], r["model"], r.get("reason")
        ob.raw = r
        ob.smt_full, ob.smt_core = r.get("smt_full"), r.get("smt_core")
    # second chance with the inductive sign lemmas (sum of zeros / of non-negatives)
    again = [ob for ob in obs if ob.kind != "cover" and ob.status != "unsat"]
    if again:
        res2 = solve.discharge_obligations(eng, again, level=1, timeout_ms=timeout_ms, seed=seed, cvc5="unknown", deadline=deadline + 0.2 * budget)
        for ob, r in zip(again, res2):
            if r["status"] == "unsat" or ob.status in ("unknown", "error"):
                first = ob.raw
                ob.status, ob.backend, ob.model, ob.detail = r["status"], r["backend"] + " +sign-lemmas", r["model"] or ob.model, r.get("reason")
                ob.time += r["time"]
                ob.raw = r
                ob.raw["first_attempt"] = first.get("log")
                ob.smt_full, ob.smt_core = r.get("smt_full"), r.get("smt_core")
    eng.prep_time = sum(o.raw.get("prep", 0) for o in obs)
    return res
