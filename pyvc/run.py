"""Running units, solving obligations, evidence."""
from __future__ import annotations
import ast, os, time
import z3
from . import solve, spec
from .heap import Closure

SPEC_FILE = os.path.join(os.path.dirname(os.path.dirname(os.path.abspath(__file__))), "specs", "spec_lib.py")


def load_specs(eng, path=SPEC_FILE):
    with open(path) as fh:
        tree = ast.parse(fh.read())
    frame = {}
    for node in tree.body:
        if isinstance(node, ast.FunctionDef):
            frame[node.name] = Closure(node, None, module=None, name=node.name, ghost=True)
    eng.spec_frame = frame


def build_tasks(eng, obs):
    from . import vcprep

    tasks = []
    for ob in obs:
        t0 = time.time()
        full, core = vcprep.prepare(eng, ob)
        ob.prep_time = time.time() - t0
        has_q = len(full) != len(core)
        ob.smt_full = vcprep.to_smt2(full) if has_q else None
        ob.smt_core = vcprep.to_smt2(core)
        tasks.append((ob.name, ob.smt_full, ob.smt_core, "prove" if ob.kind != "cover" else "cover"))
    return tasks


def solve_all(eng, obs=None, timeout_ms=20000, cvc5_all=False, seed=0):
    obs = eng.obligations if obs is None else obs
    tasks = build_tasks(eng, obs)
    res = solve.discharge(tasks, timeout_ms=timeout_ms, cvc5_all=cvc5_all, seed=seed)
    for ob in obs:
        r = res[ob.name]
        ob.status, ob.time, ob.backend, ob.model, ob.detail = r["status"], r["time"], r["backend"], r["model"], r.get("reason")
        ob.raw = r
    return res
