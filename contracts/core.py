"""Contracts for speckit/core.py (C01, C07, C08, C11, C14): helpers, reducers,
the six Numba kernels and the six NumPy fallbacks.

Top-level postconditions are the property's own definition
  X_k(w) = sum_n win[n]*(x_k[n]-trend_k[n])*exp(-i*w*n)
(spec function Dft with E(w,n)=exp(-i w n)); nothing in them is taken from the code.
"""
import ast

from pyvc.unitdef import Unit

M = "speckit/core.py"

# ------------------------------------------------------------------------- role binding
# Loop invariants talk about roles (recurrence state s1/s2, loop index, per-segment
# output arrays), bound from the *shape* of the code so that renaming locals or adding
# temporaries does not break the proof.


def _fn(tree_mod, name):
    return tree_mod.functions[name]


def goertzel_roles(loop):
    """loop body contains  A = <v> + C*B - D ; D = B ; B = A   -> {n, s1(B), s2(D)}"""
    moves = []
    for st in loop.body:
        if isinstance(st, ast.Assign) and len(st.targets) == 1 and isinstance(st.targets[0], ast.Name) and isinstance(st.value, ast.Name):
            moves.append((st.targets[0].id, st.value.id))
    for d, b in moves:
        for b2, a in moves:
            if b2 == b and a != d:
                return {"n": loop.target.id, "s1": b, "s2": d, "s0": a}
    return None


def kernel_roles(fnode):
    """roles of a Goertzel kernel function (Numba or CUDA device body)"""
    roles = {}
    for n in ast.walk(fnode):
        if isinstance(n, ast.Assign) and len(n.targets) == 1 and isinstance(n.targets[0], ast.Name) and isinstance(n.value, ast.Call) and isinstance(n.value.func, ast.Attribute):
            if n.value.func.attr == "cos":
                roles["cosw"] = n.targets[0].id
                if n.value.args and isinstance(n.value.args[0], ast.Name):
                    roles["omega"] = n.value.args[0].id
            elif n.value.func.attr == "sin":
                roles["sinw"] = n.targets[0].id
    return roles


def loops_in_order(fnode):
    out = []

    def visit(n):
        for ch in ast.iter_child_nodes(n):
            if isinstance(ch, (ast.FunctionDef, ast.Lambda)):
                continue
            if isinstance(ch, (ast.For, ast.While)):
                out.append(ch)
            visit(ch)

    visit(fnode)
    return out


# ------------------------------------------------------------------------- helper units

UNITS = []

UNITS.append(
    Unit(
        id="core._apply_detrend0_inplace_nb_mean",
        module=M,
        func="_apply_detrend0_inplace_nb_mean",
        props=["C01", "C08"],
        ghosts={"N": ("int", "len(x)")},
        params={"x": ("arr", "real", ("N",)), "s": "int", "L": "int"},
        requires=["L >= 1", "0 <= s", "s + L <= N"],
        returns="real",
        ensures={"segment_mean": "result == SegMean(x, s, L)"},
        loops={"0": dict(inv=["m == Sum(0, n, lambda i: x[s+i])"])},
    )
)

UNITS.append(
    Unit(
        id="core._apply_detrend0_inplace_nb_val",
        module=M,
        func="_apply_detrend0_inplace_nb_val",
        props=["C01", "C08"],
        params={"xn": "real", "m": "real"},
        returns="real",
        ensures={"subtract": "result == xn - m"},
    )
)

UNITS.append(
    Unit(
        id="core._apply_poly_detrend_inplace_nb_alpha",
        module=M,
        func="_apply_poly_detrend_inplace_nb_alpha",
        props=["C01", "C08"],
        ghosts={"N": ("int", "len(x)"), "P1": ("int", "Q.shape[1]")},
        params={"x": ("arr", "real", ("N",)), "L": "int", "s": "int", "Q": ("arr", "real", ("L", "P1"))},
        requires=["L >= 1", "0 <= s", "s + L <= N", "1 <= P1", "P1 <= 3", "Q.shape[0] == L"],
        returns=("arr", "real", ("P1",)),
        ensures={"projection_coefficients": "forall(0, P1, lambda k: result[k] == Alpha(x, Q, s, L, k))", "shape": "len(result) == P1"},
        loops={
            "0": dict(inv=["forall(0, k, lambda c: alpha[c] == Alpha(x, Q, s, L, c))"]),
            "1": dict(inv=["acc == Sum(0, n, lambda m: Q[m, k] * x[s + m])", "forall(0, k, lambda c: alpha[c] == Alpha(x, Q, s, L, c))"]),
        },
    )
)

UNITS.append(
    Unit(
        id="core._apply_poly_detrend_inplace_nb_rowdot",
        module=M,
        func="_apply_poly_detrend_inplace_nb_rowdot",
        props=["C01", "C08"],
        ghosts={"P1": ("int", "Q.shape[1]"), "LL": ("int", "Q.shape[0]")},
        params={"Q": ("arr", "real", ("LL", "P1")), "n": "int", "alpha": ("arr", "real", ("P1",))},
        requires=["0 <= n", "n < LL", "1 <= P1", "len(alpha) == P1"],
        returns="real",
        ensures={"row_dot": "result == Sum(0, P1, lambda k: Q[n, k] * alpha[k])"},
        loops={"0": dict(inv=["acc == Sum(0, k, lambda c: Q[n, c] * alpha[c])"])},
    )
)

STATS_ARRAYS = {
    "MXX": "implies(K >= 1, result[0] == Mean(K, lambda k: xx[k]))",
    "MYY": "implies(K >= 1, result[1] == Mean(K, lambda k: yy[k]))",
    "mu_r": "implies(K >= 1, result[2] == Mean(K, lambda k: xyr[k]))",
    "mu_i": "implies(K >= 1, result[3] == Mean(K, lambda k: xyi[k]))",
    # population variance of the per-segment cross products about their mean (divisor K), 0 for K < 2
    "M2_scatter": "implies(K >= 2, result[4] == Mean(K, lambda k: (xyr[k] - result[2])**2 + (xyi[k] - result[3])**2))",
    "M2_single": "implies(K <= 1, result[4] == 0)",
    "empty": "implies(K == 0, result[0] == 0 and result[1] == 0 and result[2] == 0 and result[3] == 0)",
}

for fname in ("_reduce_stats_nb", "_reduce_stats"):
    UNITS.append(
        Unit(
            id=f"core.{fname}",
            module=M,
            func=fname,
            props=["C01", "C11"],
            ghosts={"K": ("int", "len(xx)")},
            params={"xx": ("arr", "real", ("K",)), "yy": ("arr", "real", ("K",)), "xyr": ("arr", "real", ("K",)), "xyi": ("arr", "real", ("K",))},
            requires=["K >= 0", "len(yy) == K", "len(xyr) == K", "len(xyi) == K"],
            returns=("tuple", "real", "real", "real", "real", "real"),
            ensures=STATS_ARRAYS,
        )
    )


# ------------------------------------------------------------------------- kernels

TREND = {
    "win_only": "0",
    "detrend0": "SegMean({x}, starts[k], L)",
    "poly": "Sum(0, P1, lambda c: Q[n, c] * Alpha({x}, Q, starts[k], L, c))",
}


def seg_def(x, family):
    # windowed detrended sample of segment k:  w[n] * (x[s_k + n] - trend_k[n])
    tr = TREND[family].format(x=x)
    if family == "win_only":
        return f"lambda k: lambda n: {x}[starts[k] + n] * w[n]"
    return f"lambda k: lambda n: ({x}[starts[k] + n] - {tr}) * w[n]"


def kernel_ghost_defs(family, cross, xs):
    gd = {"vx": seg_def(xs[0], family), "X": "lambda k: Dft(vx(k), L, omega)"}
    if cross:
        gd["vy"] = seg_def(xs[1], family)
        gd["Y"] = "lambda k: Dft(vy(k), L, omega)"
        gd["Z"] = "lambda k: X(k) * conj(Y(k))"
    return gd


# the property's statement: statistics == those of the directly evaluated windowed DFT
POST_CROSS = {
    "MXX": "result[0] == Mean(K, lambda k: abs2(X(k)))",
    "MYY": "result[1] == Mean(K, lambda k: abs2(Y(k)))",
    "mu_r": "result[2] == Mean(K, lambda k: re(Z(k)))",
    "mu_i": "result[3] == Mean(K, lambda k: im(Z(k)))",
    "M2_scatter": "implies(K >= 2, result[4] == Mean(K, lambda k: abs2(Z(k) - complex(result[2], result[3]))))",
    "M2_single": "implies(K == 1, result[4] == 0)",
}
POST_AUTO = {
    "MXX": "result[0] == Mean(K, lambda k: abs2(X(k)))",
    "MYY": "result[1] == result[0]",
    "mu_r": "result[2] == result[0]",
    "mu_i": "result[3] == 0",
    "M2_scatter": "implies(K >= 2, result[4] == Mean(K, lambda k: (abs2(X(k)) - result[0])**2))",
    "M2_single": "implies(K == 1, result[4] == 0)",
}

KERNEL_REQ = ["L >= 1", "K >= 1", "len(w) == L", "forall(0, K, lambda j: 0 <= starts[j] and starts[j] + L <= N)"]
POLY_REQ = ["1 <= P1", "P1 <= 3", "Q.shape[0] == L"]


def kernel_params(family, cross):
    p = {}
    if cross:
        p["x1"] = ("arr", "real", ("N",))
        p["x2"] = ("arr", "real", ("N",))
    else:
        p["x"] = ("arr", "real", ("N",))
    p["starts"] = ("arr", "int", ("K",))
    p["L"] = "int"
    p["w"] = ("arr", "real", ("L",))
    p["omega"] = "real"
    if family == "poly":
        p["Q"] = ("arr", "real", ("L", "P1"))
    return p


def numba_kernel_loops(eng_module, fname, family, cross):
    """loop invariants, bound by roles from the real source"""
    fnode = eng_module.functions[fname]
    kr = kernel_roles(fnode)
    loops = loops_in_order(fnode)
    outer = loops[0]
    j = outer.target.id
    # per-segment output arrays: the arguments of the final reducer call
    ret = sorted([n for n in ast.walk(fnode) if isinstance(n, ast.Return)], key=lambda n: n.lineno)[-1]
    arrs = [a.id for a in ret.value.args]
    specs = {}
    if cross:
        inv_outer = f"forall(0, {j}, lambda k: {arrs[0]}[k] == abs2(X(k)) and {arrs[1]}[k] == abs2(Y(k)) and {arrs[2]}[k] == re(Z(k)) and {arrs[3]}[k] == im(Z(k)))"
    else:
        inv_outer = f"forall(0, {j}, lambda k: {arrs[0]}[k] == abs2(X(k)) and {arrs[1]}[k] == abs2(X(k)) and {arrs[2]}[k] == abs2(X(k)) and {arrs[3]}[k] == 0)"
    specs["0"] = dict(inv=[inv_outer], label="segments")
    inner = [l for l in loops[1:] if goertzel_roles(l)]
    if len(inner) != (2 if cross else 1):
        raise RuntimeError(f"{fname}: expected {(2 if cross else 1)} Goertzel loops, found {len(inner)}")
    for idx, l in enumerate(inner):
        r = goertzel_roles(l)
        chan = "vx" if idx == 0 else "vy"
        ordinal = str(loops.index(l))
        specs[ordinal] = dict(
            inv=[f"complex({r['s1']} - {r['s2']}*{kr['cosw']}, {r['s2']}*{kr['sinw']}) == conj(E({kr.get('omega','omega')}, {r['n']} - 1)) * Dft({chan}({j}), {r['n']}, {kr.get('omega','omega')})"],
            label="goertzel_" + ("x" if idx == 0 else "y"),
        )
    return specs


def reducer_lemmas(mod, fname, cross):
    """cut lemmas for kernels that end in  return _reduce_stats_nb(a, b, c, d)"""
    fnode = mod.functions[fname]
    ret = sorted([n for n in ast.walk(fnode) if isinstance(n, ast.Return)], key=lambda n: n.lineno)[-1]
    arrs = [a.id for a in ret.value.args]
    if cross:
        zr, zi = arrs[2], arrs[3]
        return {
            "lemma.scatter_pointwise": f"forall(0, K, lambda k: ({zr}[k] - result[2])**2 + ({zi}[k] - result[3])**2 == abs2(Z(k) - complex(result[2], result[3])))",
            "lemma.scatter_sum": f"Sum(0, K, lambda k: ({zr}[k] - result[2])**2 + ({zi}[k] - result[3])**2) == Sum(0, K, lambda k: abs2(Z(k) - complex(result[2], result[3])))",
        }
    zr, zi = arrs[2], arrs[3]
    return {
        "lemma.scatter_pointwise": f"forall(0, K, lambda k: ({zr}[k] - result[2])**2 + ({zi}[k] - result[3])**2 == (abs2(X(k)) - result[2])**2)",
        "lemma.scatter_sum": f"Sum(0, K, lambda k: ({zr}[k] - result[2])**2 + ({zi}[k] - result[3])**2) == Sum(0, K, lambda k: (abs2(X(k)) - result[2])**2)",
    }


class LazyLoops(dict):
    """loop specs computed from the source when the unit is proved"""

    def __init__(self, fn):
        super().__init__()
        self.fn = fn


def make_numba_kernel(fname, family, cross):
    xs = ["x1", "x2"] if cross else ["x"]
    ghosts = {"N": ("int", f"len({xs[0]})"), "K": ("int", "len(starts)")}
    req = list(KERNEL_REQ)
    if cross:
        req.append("len(x2) == N")
    if family == "poly":
        ghosts["P1"] = ("int", "Q.shape[1]")
        req += POLY_REQ
    u = Unit(
        id=f"core.{fname}",
        module=M,
        func=fname,
        props=["C01", "C07", "C08", "C11", "C14"],
        ghosts=ghosts,
        params=kernel_params(family, cross),
        requires=req,
        returns=("tuple", "real", "real", "real", "real", "real"),
        ensures=dict(POST_CROSS if cross else POST_AUTO),
        opts={"ghost_defs": kernel_ghost_defs(family, cross, xs), "lazy_loops": lambda mod, fname=fname, family=family, cross=cross: numba_kernel_loops(mod, fname, family, cross), "lazy_lemmas": lambda mod, fname=fname, cross=cross: reducer_lemmas(mod, fname, cross), "sat_level": 0 if cross else 1},
    )
    return u


for family in ("win_only", "detrend0", "poly"):
    for cross in (False, True):
        UNITS.append(make_numba_kernel(f"_stats_{family}_{'csd' if cross else 'auto'}", family, cross))


def install(eng):
    # NamedTuple constructor BinStats(...) -> tuple
    def binstats(eng_, st, fn, args, kwargs, line):
        return tuple(args)

    eng.call_hooks["class:speckit/core.py:BinStats"] = binstats


# ------------------------------------------------------------------------- run-time reading
# (bounded: cross-check of the encoding, replay of candidate counter-models, float gap)


def kernel_sample(family, cross):
    def sample(rng, i):
        import numpy as np
        from speckit.core import _build_Q

        N = int(rng.integers(8, 120))
        L = int(rng.integers(1, min(N, 48) + 1)) if i % 7 else N
        K = int(rng.integers(1, 6))
        starts = rng.integers(0, N - L + 1, K).astype(np.int64)  # unsorted, repeats allowed
        t = np.arange(N)
        a = dict(starts=starts, L=L, w=rng.normal(size=L) if i % 3 else np.hanning(L + 2)[1:-1].copy(), omega=float(rng.uniform(0, np.pi)))
        if i % 5 == 0:
            a["omega"] = 2 * np.pi * int(rng.integers(0, L // 2 + 1)) / L
        x1 = rng.normal(size=N) + rng.normal() * 3 + rng.normal() * 0.1 * t + rng.normal() * 0.002 * t * t
        x2 = rng.normal(size=N) + rng.normal() * 3 + rng.normal() * 0.1 * t + rng.normal() * 0.002 * t * t + 0.5 * x1
        if cross:
            a["x1"], a["x2"] = x1, x2
        else:
            a["x"] = x1
        if family == "poly":
            order = int(rng.integers(1, 3))
            if L <= order:
                order = 1
            a["Q"] = _build_Q(L, order) if L >= 2 else np.ones((1, 1))
        return a

    return sample


def kernel_call(modname, fname):
    def call(a):
        import importlib

        m = importlib.import_module(modname)
        return getattr(m, fname)(**a)

    return call


def kernel_scale(a, result):
    import numpy as np

    x = a.get("x1", a.get("x"))
    s = float(np.sum(np.abs(a["w"])) * (np.max(np.abs(x)) + (np.max(np.abs(a["x2"])) if "x2" in a else 0.0)))
    return 1e3 * s * s * max(1, len(a["w"]))  # recurrence rounding budget ~ L*eps*(sum|v|)^2; RTOL=1e-7


for _u in UNITS:
    if _u.id.startswith("core._stats_"):
        _fam = "poly" if "_poly_" in _u.id else ("detrend0" if "_detrend0_" in _u.id else "win_only")
        _cross = "_csd" in _u.id
        _u.runtime = dict(sample=kernel_sample(_fam, _cross), call=kernel_call("speckit.core", _u.func), scale=kernel_scale, n_quick=12, n_thorough=120, n_search=60, skip_requires=("forall(0, K, lambda j: 0 <= starts[j] and starts[j] + L <= N)",))


# ------------------------------------------------------------------------- NumPy fallbacks


def _gather_post(eng, st, fid, res, entry):
    """the gathered block must be a fresh buffer (C13/C14: later in-place detrending must
    never reach the caller's record)"""
    from pyvc.heap import ArrV

    r = eng.deref(st, res)
    x = eng.deref(st, eng.lookup(st, fid, "x"))
    fresh = isinstance(r, ArrV) and isinstance(x, ArrV) and not (r.bufs & x.bufs)
    eng.oblige(st, "frame", "result_is_a_copy_not_a_view_of_x", bool(fresh))


def _gather_call_post(eng, st, fid, res):
    pass


UNITS.append(
    Unit(
        id="core._gather_segments",
        module=M,
        func="_gather_segments",
        props=["C01", "C13", "C14"],
        ghosts={"N": ("int", "len(x)"), "K": ("int", "len(starts)")},
        params={"x": ("arr", "real", ("N",)), "starts": ("arr", "int", ("K",)), "L": "int"},
        requires=["L >= 1", "forall(0, K, lambda j: 0 <= starts[j] and starts[j] + L <= N)"],
        returns=("arr", "real", ("K", "L")),
        ensures={"gathered": "forall(0, K, lambda k: forall(0, L, lambda n: result[k, n] == x[starts[k] + n]))", "shape": "result.shape[0] == K and result.shape[1] == L"},
        post_hook=_gather_post,
    )
)


def np_kernel_loops(mod, fname, family, cross):
    fnode = mod.functions[fname]
    loops = loops_in_order(fnode)
    chunk = loops[0]
    j0 = chunk.target.id
    tg = []
    for st_ in chunk.body:
        if isinstance(st_, ast.Assign) and isinstance(st_.targets[0], ast.Subscript) and isinstance(st_.targets[0].value, ast.Name) and isinstance(st_.targets[0].slice, ast.Slice):
            tg.append(st_.targets[0].value.id)
    if cross:
        if len(tg) != 4:
            raise RuntimeError(f"{fname}: expected 4 per-segment arrays, found {tg}")
        # NB the invariant states what the code's own kernel e = exp(+/- i w n) delivers is
        # irrelevant here: it is the property's X, Y, Z that the arrays must hold
        inv = f"forall(0, min({j0}, K), lambda k: {tg[0]}[k] == abs2(X(k)) and {tg[1]}[k] == abs2(Y(k)) and {tg[2]}[k] == re(Z(k)) and {tg[3]}[k] == im(Z(k)))"
    else:
        if len(tg) != 1:
            raise RuntimeError(f"{fname}: expected 1 per-segment array, found {tg}")
        inv = f"forall(0, min({j0}, K), lambda k: {tg[0]}[k] == abs2(X(k)))"
    return {"0": dict(inv=[inv], label="chunks")}


def np_kernel_lemmas(mod, fname, cross):
    """cut lemmas for the inline scatter reduction of the NumPy kernels"""
    fnode = mod.functions[fname]
    loops = loops_in_order(fnode)
    chunk = loops[0]
    tg = [st_.targets[0].value.id for st_ in chunk.body if isinstance(st_, ast.Assign) and isinstance(st_.targets[0], ast.Subscript) and isinstance(st_.targets[0].value, ast.Name) and isinstance(st_.targets[0].slice, ast.Slice)]
    ret = sorted([n for n in ast.walk(fnode) if isinstance(n, ast.Return)], key=lambda n: n.lineno)[-1]
    names = [e.id if isinstance(e, ast.Name) else None for e in ret.value.elts]
    if cross:
        zr, zi, mr, mi = tg[2], tg[3], names[2], names[3]
        return {
            "lemma.scatter_pointwise": f"forall(0, K, lambda k: ({zr}[k] - {mr})**2 + ({zi}[k] - {mi})**2 == abs2(Z(k) - complex({mr}, {mi})))",
            "lemma.scatter_sum": f"Sum(0, K, lambda k: ({zr}[k] - {mr})**2 + ({zi}[k] - {mi})**2) == Sum(0, K, lambda k: abs2(Z(k) - complex({mr}, {mi})))",
        }
    p, mr = tg[0], names[2]
    return {
        "lemma.scatter_pointwise": f"forall(0, K, lambda k: ({p}[k] - {mr})**2 == (abs2(X(k)) - {mr})**2)",
        "lemma.scatter_sum": f"Sum(0, K, lambda k: ({p}[k] - {mr})**2) == Sum(0, K, lambda k: (abs2(X(k)) - {mr})**2)",
    }


def make_np_kernel(fname, family, cross):
    xs = ["x1", "x2"] if cross else ["x"]
    ghosts = {"N": ("int", f"len({xs[0]})"), "K": ("int", "len(starts)")}
    req = list(KERNEL_REQ)
    if cross:
        req.append("len(x2) == N")
    if family == "poly":
        ghosts["P1"] = ("int", "Q.shape[1]")
        req += POLY_REQ
    return Unit(
        id=f"core.{fname}",
        module=M,
        func=fname,
        props=["C01", "C07", "C08", "C11", "C14"],
        ghosts=ghosts,
        params=kernel_params(family, cross),
        requires=req,
        returns=("tuple", "real", "real", "real", "real", "real"),
        ensures=dict(POST_CROSS if cross else POST_AUTO),
        opts={"ghost_defs": kernel_ghost_defs(family, cross, xs), "lazy_loops": lambda mod, fname=fname, family=family, cross=cross: np_kernel_loops(mod, fname, family, cross), "lazy_lemmas": lambda mod, fname=fname, cross=cross: np_kernel_lemmas(mod, fname, cross), "sat_level": 0 if cross else 1},
    )


for family in ("win_only", "detrend0", "poly"):
    for cross in (False, True):
        _u = make_np_kernel(f"_stats_{family}_{'csd' if cross else 'auto'}_np", family, cross)

        def _smp(rng, i, _base=kernel_sample(family, cross)):
            # the NumPy fallbacks process the segments in chunks: half of the samples have more segments than one
            # (small) chunk holds
            import numpy as np

            a = _base(rng, i)
            if i % 2:
                N_ = len(a.get("x1", a.get("x")))
                K_ = int(rng.integers(6, 14))
                a["starts"] = rng.integers(0, N_ - a["L"] + 1, K_).astype(np.int64)
                a["_chunk"] = int(rng.integers(2, 5))
            return a

        _u.runtime = dict(sample=_smp, call=kernel_call("speckit.core", _u.func), scale=kernel_scale, n_quick=12, n_thorough=120, n_search=60, skip_requires=("forall(0, K, lambda j: 0 <= starts[j] and starts[j] + L <= N)",))
        if family == "poly":
            # the vectorised projection (segs @ Q, alpha @ Q.T) needs three nested sum-extensionality
            # steps that the VC preparation does not find within its budget
            _u.opts["bounded_only"] = "nested matrix-product sums: inv_step of the chunk loop stays undecided in the solver budget"
            _u.runtime["n_quick"] = 40
            _u.runtime["n_thorough"] = 400
        UNITS.append(_u)


CUDA_HOSTS = [f"core_cuda._stats_{fam}_{m}_cuda" for fam in ("win_only", "detrend0", "poly") for m in ("auto", "csd")]
_KINFO = {
    "cudasim_units": CUDA_HOSTS,
    "not_decided": ["rounding budget of the recurrence (float vs real): sampled by the run-time contract check with tolerance ~1e-4*L*(sum|w| max|x|)^2, not proved"],
    "trusted": ["np.linalg.qr(V, 'reduced'): Q^T Q = I and range(Q) = range(V) (used by C08 only through the callers' requirement on Q)"],
}
PROPERTY_INFO = {"C01": dict(_KINFO), "C07": dict(_KINFO), "C08": dict(_KINFO), "C14": dict(_KINFO), "C11": {}}


def bounded_definition(tier, seed):
    """C01 (bounded): the statistics delivered through the public single-bin entry point equal the property's own
    definition evaluated directly - segment, subtract the least-squares polynomial of the detrend order (numpy lstsq, no
    Q involved), window, DFT with exp(-i w n), average - for every order, both CPU backends, short and long segments.
    This ties the basis Q that _build_Q hands to the kernels (proved only relative to the assumed QR contract) to the
    definition."""
    import numpy as np
    from speckit import SpectrumAnalyzer

    rng = np.random.default_rng(seed)
    fails, n = [], 0
    for L in (8, 16, 64, 200) if tier == "quick" else (4, 8, 16, 33, 64, 200, 400):
        N = 12 * L + 5
        x = 3 + rng.normal(size=N)
        y = -2 + 0.5 * x + rng.normal(size=N)
        for order in (-1, 0, 1, 2):
            if L <= order + 1:
                continue
            for backend in ("numba", "numpy"):
                for cross in (False, True):
                    n += 1
                    an = SpectrumAnalyzer([x, y] if cross else x, 10.0, olap=0.5, order=order, win="hann", backend=backend)
                    r = an.compute_single_bin(10.0 * 2.37 / L, L=L)
                    D = np.asarray(r.D[0])
                    w = np.hanning(L)
                    t = np.arange(L)
                    e = np.exp(-1j * 2 * np.pi * (2.37 / L) * t)

                    def dft(v):
                        out = []
                        for s in D:
                            seg = v[s : s + L].astype(float)
                            if order >= 0:
                                A = np.vander(np.linspace(-1, 1, L), order + 1, increasing=True)
                                seg = seg - A @ np.linalg.lstsq(A, seg, rcond=None)[0]
                            out.append(np.sum(seg * w * e))
                        return np.array(out)

                    X = dft(x)
                    Y = dft(y) if cross else X
                    want = (np.mean(np.abs(X) ** 2), np.mean(np.abs(Y) ** 2), np.mean(X * np.conj(Y)))
                    got = (float(r.XX[0]), float(r.YY[0]) if cross else float(r.XX[0]), complex(r.XY[0]) if cross else complex(r.XX[0]))
                    sc = max(want[0], want[1])
                    if abs(got[0] - want[0]) > 1e-8 * sc or abs(got[1] - want[1]) > 1e-8 * sc or abs(got[2] - want[2]) > 1e-8 * sc:
                        fails.append({"label": "C01.definition", "input": {"L": L, "order": order, "backend": backend, "cross": cross}, "detail": f"XX={got[0]!r} (definition {want[0]!r}), XY={got[2]!r} (definition {want[2]!r})"})
    return {"evaluations": n, "bound": "L in 8..200 (4..400 thorough) x orders -1..2 x {numba, numpy} x {auto, cross}, one fractional bin", "failures": fails[:5], "n_failures": len(fails)}


BOUNDED = {"C01.definition": bounded_definition}
PROPERTY_INFO["C01"]["bounded"] = ["C01.definition"]


# ---- C14: thread-schedule independence of the prange kernels (syntactic data-flow obligation on the real source) -------
# numba.prange runs the iterations in an unspecified order on several threads.  The result is independent of the number
# of threads and of the chunking iff no iteration communicates with another one: every array store in the body is
# indexed by the loop variable (own slot, proved per kernel under C01/C14 frame obligations) and every scalar the body
# accumulates into is (re)initialised inside the iteration.  The second half is checked here directly on the AST, so it
# also holds when a kernel is restructured beyond what the loop-invariant contracts can follow.


def _prange_independence(fname):
    def setup(eng, prop):
        import ast as _ast
        from pyvc.engine import State

        mod = eng.module(M)
        fnode = mod.functions[fname]
        st = State()
        eng.cur_state = st
        loops = [n for n in _ast.walk(fnode) if isinstance(n, _ast.For) and isinstance(n.iter, _ast.Call) and (getattr(n.iter.func, "id", None) in ("prange", "_prange") or getattr(n.iter.func, "attr", None) == "prange")]
        eng.oblige(st, "frame", "C14.kernel_has_a_prange_loop_over_segments", len(loops) >= 1)
        for li, loop in enumerate(loops):
            first = {}
            stores_ok = True
            lv = loop.target.id if isinstance(loop.target, _ast.Name) else None
            for sub in [n_ for b_ in loop.body for n_ in _ast.walk(b_)]:
                if isinstance(sub, _ast.Assign):
                    for t_ in sub.targets:
                        if isinstance(t_, (_ast.Name, _ast.Tuple)):
                            for nm_ in [x_ for x_ in _ast.walk(t_) if isinstance(x_, _ast.Name)]:
                                first.setdefault(nm_.id, ("assign", sub.lineno))
                        elif isinstance(t_, _ast.Subscript):
                            # an array store in the parallel body must address the iteration's own slot
                            idx = t_.slice
                            own = isinstance(idx, _ast.Name) and idx.id == lv
                            local = isinstance(t_.value, _ast.Name) and t_.value.id in first
                            stores_ok = stores_ok and (own or local)
                elif isinstance(sub, _ast.AugAssign) and isinstance(sub.target, _ast.Name):
                    first.setdefault(sub.target.id, ("aug", sub.lineno))
                elif isinstance(sub, _ast.AugAssign) and isinstance(sub.target, _ast.Subscript):
                    idx = sub.target.slice
                    own = isinstance(idx, _ast.Name) and idx.id == lv
                    local = isinstance(sub.target.value, _ast.Name) and sub.target.value.id in first
                    stores_ok = stores_ok and (own or local)
                elif isinstance(sub, _ast.For) and isinstance(sub.target, _ast.Name):
                    first.setdefault(sub.target.id, ("assign", sub.lineno))
            shared = sorted(k_ for k_, (how_, ln_) in first.items() if how_ == "aug")
            eng.oblige(st, "frame", f"C14.prange_body_has_no_cross_iteration_accumulator[loop {li}]", not shared, {"shared": shared})
            eng.oblige(st, "frame", f"C14.prange_body_stores_only_to_its_own_slot[loop {li}]", bool(stores_ok))

    return setup


for _k in ("_stats_win_only_auto", "_stats_win_only_csd", "_stats_detrend0_auto", "_stats_detrend0_csd", "_stats_poly_auto", "_stats_poly_csd"):
    UNITS.append(Unit(id=f"core.{_k}[prange-independence]", module=M, func=_k, props=["C14"], kind="lemma", setup=_prange_independence(_k), opts={"callee": False}))


def bounded_threads(tier, seed):
    """C14 (bounded): the same analysis with 1, 2, 3, 4 and all worker threads (and different parallel chunk sizes) gives
    bit-identical statistics - full and single-bin analyses, all orders, auto and cross, Numba backend"""
    import numpy as np
    import numba
    from speckit import SpectrumAnalyzer

    rng = np.random.default_rng(seed)
    fails, n = [], 0
    N = 20000
    t = np.arange(N) / 100.0
    x = 3 * np.sin(2 * np.pi * 3.125 * t) + 1e-6 * rng.normal(size=N)
    y = 0.5 * x + rng.normal(size=N)
    nmax = numba.config.NUMBA_NUM_THREADS
    keep = numba.get_num_threads()
    try:
        for order in (-1, 0, 1, 2):
            for cross in (False, True):
                ref = None
                for nt in sorted({1, 2, 3, min(4, nmax), nmax}):
                    if nt > nmax:
                        continue
                    for chunk in (0, 1, 5) if tier == "thorough" else (0, 5):
                        numba.set_num_threads(nt)
                        try:
                            numba.set_parallel_chunksize(chunk)
                        except Exception:
                            pass
                        an = SpectrumAnalyzer([x, y] if cross else x, 100.0, olap=0.5, Jdes=30, Kdes=40, order=order, win="hann", scheduler="ltf", backend="numba")
                        r = an.compute()
                        b = an.compute_single_bin(3.125, L=2048)
                        got = (np.array(r.XX), np.array(r.YY), np.array(r.XY), np.array(r._data["M2"]), np.array(b.XX), np.array(b._data["M2"]))
                        n += 1
                        if ref is None:
                            ref = got
                        elif not all(np.array_equal(a_, b_) for a_, b_ in zip(ref, got)):
                            fails.append({"label": "C14.thread_count", "input": {"order": order, "cross": cross, "threads": nt, "chunksize": chunk}, "detail": "statistics differ from the single-thread run"})
    finally:
        numba.set_num_threads(keep)
        try:
            numba.set_parallel_chunksize(0)
        except Exception:
            pass
    return {"evaluations": n, "bound": f"threads in 1..{nmax}, chunk sizes 0/5 (0/1/5 thorough), orders -1..2, auto and cross, N=20000", "failures": fails[:5], "n_failures": len(fails)}


BOUNDED["C14.threads"] = bounded_threads
PROPERTY_INFO["C14"]["bounded"] = list(PROPERTY_INFO["C14"].get("bounded", [])) + ["C14.threads"]
