"""Contracts for dsp.lagrange_taps / dsp.timeshift (C16).

lagrange_taps: for each halfp (orders 1..111) the real function is executed symbolically with
one symbolic fraction d in [0,1) and all loops unrolled; every tap is then a rational function
of d.  It is compared with the textbook Lagrange weight
    Lag_k(d) = prod_{m != k} (d - x_m)/(x_k - x_m),   nodes x_m = m - (halfp-1), m = 0..2*halfp-1
by *exact polynomial identity testing*: the cross-multiplied difference has degree <= B (B is
computed from the term structure); it vanishes at B+1 distinct rational points (exact Fraction
arithmetic), hence identically.  Back end name: poly-eval.

timeshift (constant-shift path): index arithmetic of the integer/fraction split, edge padding
and correlation, for all n and all real shifts.
"""
import time
from fractions import Fraction

from pyvc.unitdef import Unit

M = "speckit/dsp.py"
UNITS = []


# ------------------------------------------------------------------------- exact evaluation of z3 terms


def eval_term(t, env, memo):
    import z3

    i = t.get_id()
    if i in memo:
        return memo[i]
    if z3.is_int_value(t):
        r = Fraction(t.as_long())
    elif z3.is_rational_value(t):
        r = Fraction(t.numerator_as_long(), t.denominator_as_long())
    elif z3.is_const(t) and t.decl().kind() == z3.Z3_OP_UNINTERPRETED:
        r = env[t.decl().name()]
    else:
        k = t.decl().kind()
        ch = [eval_term(c, env, memo) for c in t.children()]
        if k == z3.Z3_OP_ADD:
            r = sum(ch, Fraction(0))
        elif k == z3.Z3_OP_SUB:
            r = ch[0]
            for c in ch[1:]:
                r -= c
        elif k == z3.Z3_OP_MUL:
            r = Fraction(1)
            for c in ch:
                r *= c
        elif k == z3.Z3_OP_DIV:
            r = ch[0] / ch[1]
        elif k == z3.Z3_OP_UMINUS:
            r = -ch[0]
        elif k == z3.Z3_OP_TO_REAL:
            r = ch[0]
        else:
            raise ValueError(f"eval_term: operator {t.decl().name()}")
    memo[i] = r
    return r


def compile_terms(terms):
    """flatten the term DAG once into a straight-line program over Fractions (no z3 calls per point)"""
    import z3

    prog = []  # (op, args)
    index = {}

    def go(t):
        i = t.get_id()
        if i in index:
            return index[i]
        if z3.is_int_value(t):
            node = ("c", Fraction(t.as_long()))
        elif z3.is_rational_value(t):
            node = ("c", Fraction(t.numerator_as_long(), t.denominator_as_long()))
        elif z3.is_const(t) and t.decl().kind() == z3.Z3_OP_UNINTERPRETED:
            node = ("v", t.decl().name())
        else:
            k = t.decl().kind()
            ch = [go(c) for c in t.children()]
            op = {z3.Z3_OP_ADD: "+", z3.Z3_OP_SUB: "-", z3.Z3_OP_MUL: "*", z3.Z3_OP_DIV: "/", z3.Z3_OP_UMINUS: "neg", z3.Z3_OP_TO_REAL: "id"}.get(k)
            if op is None:
                raise ValueError(f"compile_terms: operator {t.decl().name()}")
            node = (op, ch)
        prog.append(node)
        index[i] = len(prog) - 1
        return index[i]

    outs = [go(t) for t in terms]
    return prog, outs


def run_prog(prog, outs, env):
    vals = [None] * len(prog)
    for i, (op, a) in enumerate(prog):
        if op == "c":
            vals[i] = a
        elif op == "v":
            vals[i] = env[a]
        elif op == "+":
            r = vals[a[0]]
            for j in a[1:]:
                r = r + vals[j]
            vals[i] = r
        elif op == "-":
            r = vals[a[0]]
            for j in a[1:]:
                r = r - vals[j]
            vals[i] = r
        elif op == "*":
            r = vals[a[0]]
            for j in a[1:]:
                r = r * vals[j]
            vals[i] = r
        elif op == "/":
            vals[i] = vals[a[0]] / vals[a[1]]
        elif op == "neg":
            vals[i] = -vals[a[0]]
        else:
            vals[i] = vals[a[0]]
    return [vals[o] for o in outs]


def denominators(terms):
    import z3

    out = {}
    seen = set()
    st = list(terms)
    while st:
        t = st.pop()
        if t.get_id() in seen:
            continue
        seen.add(t.get_id())
        if z3.is_app(t):
            if t.decl().kind() == z3.Z3_OP_DIV and not (z3.is_rational_value(t.arg(1)) or z3.is_int_value(t.arg(1))):
                out[t.arg(1).get_id()] = t.arg(1)
            st.extend(t.children())
    return list(out.values())


def degree_bound(t, memo):
    """(deg numerator, deg denominator) upper bounds of the rational function denoted by t"""
    import z3

    i = t.get_id()
    if i in memo:
        return memo[i]
    if z3.is_int_value(t) or z3.is_rational_value(t):
        r = (0, 0)
    elif z3.is_const(t):
        r = (1, 0)
    else:
        k = t.decl().kind()
        ch = [degree_bound(c, memo) for c in t.children()]
        if k in (z3.Z3_OP_ADD, z3.Z3_OP_SUB):
            den = sum(c[1] for c in ch)
            num = max(c[0] + den - c[1] for c in ch)
            r = (num, den)
        elif k == z3.Z3_OP_MUL:
            r = (sum(c[0] for c in ch), sum(c[1] for c in ch))
        elif k == z3.Z3_OP_DIV:
            r = (ch[0][0] + ch[1][1], ch[0][1] + ch[1][0])
        elif k in (z3.Z3_OP_UMINUS, z3.Z3_OP_TO_REAL):
            r = ch[0]
        else:
            raise ValueError(f"degree_bound: operator {t.decl().name()}")
    memo[i] = r
    return r


def lagrange_weight(k, d, h):
    nodes = [m - (h - 1) for m in range(2 * h)]
    r = Fraction(1)
    for m, xm in enumerate(nodes):
        if m != k:
            r *= (d - xm) / Fraction(nodes[k] - xm)
    return r


def taps_setup(halfps):
    def setup(eng, prop):
        import z3
        from pyvc.engine import State
        from pyvc.heap import ArrV, Closure
        from pyvc.values import Sym
        from pyvc import values as V

        mod = eng.module(M)
        fnode = mod.functions["lagrange_taps"]
        for h in halfps:
            t0 = time.time()
            st = State()
            eng.cur_state = st
            d = Sym(z3.Real("d"), "real")
            st.assume(V.b_and(V.cmp("<=", 0, d), V.cmp("<", d, 1)))
            arr = eng.alloc(st, ArrV((1,), lambda ix: d, "real"))
            clo = Closure(fnode, None, module=mod, name="lagrange_taps")
            st.ghost += 1  # element functions are lazy: safety is stated once below, not per read
            try:
                rs = eng.call_closure(st, clo, [arr, h], {})
                if len(rs) != 1:
                    raise RuntimeError("lagrange_taps forks")
                res = eng.deref(st, rs[0][1])
                terms = [V.real_term(res.fn((0, k))) for k in range(2 * h)]
            finally:
                st.ghost -= 1
            # every denominator occurring in the taps is non-zero for 0 <= d < 1 (one SMT obligation)
            dens = denominators(terms)
            if dens:
                eng.oblige(st, "safe", f"denominators_nonzero[halfp={h}]", Sym(z3.And(*[dn != 0 for dn in dens]), "bool"))
            worst = 0
            ok_all = True
            detail = None
            dmemo = {}
            for tk in terms:
                nb, db = degree_bound(tk, dmemo)
                # code tap = P/Q with deg P <= nb, deg Q <= db; the Lagrange weight is a polynomial of
                # degree 2h-1: P - Lag*Q has degree <= max(nb, 2h-1+db)
                worst = max(worst, max(nb, 2 * h - 1 + db))
            pts = [Fraction(i + 1, worst + 3) for i in range(worst + 1)]
            prog, outs = compile_terms(terms)
            sums = []
            for x in pts:
                vals = run_prog(prog, outs, {"d": x})
                sums.append(sum(vals, Fraction(0)))
                for k, got in enumerate(vals):
                    want = lagrange_weight(k, x, h)
                    if got != want:
                        ok_all = False
                        detail = {"halfp": h, "tap": k, "d": str(x), "code": str(got), "lagrange": str(want)}
                        break
                if not ok_all:
                    break
            eng.add_decided("post", f"taps_are_lagrange_weights[halfp={h}]", "unsat" if ok_all else "sat", f"poly-eval (exact identity testing at {worst + 1} rational points per tap, degree bound {worst})", time.time() - t0, detail, model=detail)
            # taps sum to one (same method; degree bound as above)
            ok_sum = True
            tot_detail = None
            for x, tot in zip(pts, sums):
                if tot != 1:
                    ok_sum = False
                    tot_detail = {"halfp": h, "d": str(x), "sum": str(tot)}
                    break
            if len(sums) < len(pts):
                ok_sum, tot_detail = False, detail
            eng.add_decided("post", f"taps_sum_to_one[halfp={h}]", "unsat" if ok_sum else "sat", "poly-eval", 0.0, tot_detail, model=tot_detail)
            # shape
            eng.add_decided("post", f"shape[halfp={h}]", "unsat" if (res.shape[1] == 2 * h and res.shape[0] == 1) else "sat", "syntactic", 0.0)

    return setup


QUICK_H = [1, 2, 3, 4, 5, 7, 8, 16]
UNITS.append(Unit(id="dsp.lagrange_taps[exact,quick]", module=M, func="lagrange_taps", props=["C16"], kind="lemma", setup=taps_setup(QUICK_H), opts={"callee": False, "tier": "quick"}))
UNITS.append(Unit(id="dsp.lagrange_taps[exact,all]", module=M, func="lagrange_taps", props=["C16"], kind="lemma", setup=taps_setup([h for h in range(1, 57) if h not in QUICK_H]), opts={"callee": False, "tier": "thorough"}))

# contract used at call sites (values are characterised by the exact units above)
UNITS.append(
    Unit(
        id="dsp.lagrange_taps",
        module=M,
        func="lagrange_taps",
        props=[],
        params={},
        ghosts={"NS": ("int", "shift_fracs.size")},
        requires=["halfp >= 1"],
        returns=("arr", "real", ("NS", "2*halfp")),
        ensures={"shape": "result.shape[0] == NS and result.shape[1] == 2*halfp"},
        opts={"callee": True},
    )
)


def _ts_setup(eng, st, fid, genv):
    pass


CLAMP = "lambda q: data[ite(q < 0, 0, ite(q > n - 1, n - 1, q))]"
UNITS.append(
    Unit(
        id="dsp.timeshift[constant]",
        module=M,
        func="timeshift",
        props=["C16"],
        ghosts={"n": ("int", "len(data)"), "h": ("int", "(order + 1)//2"), "fl": ("int", "floor(shifts)")},
        params={"data": ("arr", "real", ("n",)), "shifts": "real", "order": "int"},
        requires=["n >= 2", "order >= 1", "order % 2 == 1"],
        ensures={
            "zero_shift_is_identity": "implies(shifts == 0, result is data)",
            "length_kept": "implies(shifts != 0, len(result) == n)",
            # every output sample is the tap-weighted stencil of the end-held record, starting at n' + floor(s) - (h-1)
            "stencil": "implies(fl + h + n - 1 >= 0 and fl - (h - 1) <= n - 1, forall(0, n, lambda j: result[j] == Sum(0, 2*halfp, lambda k: TAPS[0, k] * held(j + fl - (h - 1) + k))) and halfp == h) if HAVE_TAPS else shifts == 0",
            "far_left_holds_first_sample": "implies(shifts != 0 and fl + h + n - 1 < 0, forall(0, n, lambda j: result[j] == data[0]))",
            "far_right_holds_last_sample": "implies(shifts != 0 and fl - (h - 1) > n - 1, forall(0, n, lambda j: result[j] == data[n - 1]))",
            "fraction_in_unit_interval": "(0 <= FRAC and FRAC < 1 and FRAC == shifts - fl) if HAVE_TAPS else shifts == 0",
            "input_not_written": "forall(0, n, lambda j: data[j] == old_data[j])",
        },
        post_hook=lambda eng, st, fid, res, entry: (st.tags.setdefault("ghosts", {}).__setitem__("HAVE_TAPS", "TAPS" in st.tags.get("ghosts", {})), st.tags["ghosts"].setdefault("TAPS", None), st.tags["ghosts"].setdefault("FRAC", None)),
        opts={"callee": False, "ghost_defs": {"held": CLAMP}, "sat_level": 0},
    )
)

# time-varying shifts (one per sample): wherever the stencil is interior the output is the tap-weighted stencil that
# starts at j + floor(s_j) - (h-1) - the same expression as the constant path, so the two paths agree there (the taps
# of row j are lagrange_taps' values for the fraction s_j - floor(s_j); their values are the exact units above)
UNITS.append(
    Unit(
        id="dsp.timeshift[time-varying]",
        module=M,
        func="timeshift",
        props=["C16"],
        ghosts={"n": ("int", "len(data)"), "h": ("int", "(order + 1)//2")},
        params={"data": ("arr", "real", ("n",)), "shifts": ("arr", "real", ("n",)), "order": "int"},
        requires=["n >= 2", "order >= 1", "order % 2 == 1"],
        ensures={
            "all_zero_shifts_are_the_identity": "implies(forall(0, n, lambda j: shifts[j] == 0), result is data)",
            "length_kept": "len(result) == n",
            # total description: the stencil of the zero-padded record at the clipped position ...
            "stencil_of_the_zero_padded_record": "forall(0, n, lambda j: result[j] == Sum(0, 2*halfp, lambda k: TAPS[j, k] * zp(cl(j + floor(shifts[j])) - (halfp - 1) + k))) and halfp == h if HAVE_TAPS else forall(0, n, lambda j: shifts[j] == 0)",
            # ... and wherever the stencil is interior neither the clipping nor the zero padding is active: the samples
            # entering the sum are data[j + floor(s_j) - (h-1) + k], k = 0..2h-1 - the constant path's stencil
            "interior_stencil_reads_the_record": "forall(0, n, lambda j: implies(0 <= j + floor(shifts[j]) - (h - 1) and j + floor(shifts[j]) + h <= n - 1, forall(0, 2*h, lambda k: zp(cl(j + floor(shifts[j])) - (halfp - 1) + k) == data[j + floor(shifts[j]) - (h - 1) + k]))) if HAVE_TAPS else forall(0, n, lambda j: shifts[j] == 0)",
            "fractions_in_unit_interval": "forall(0, n, lambda j: 0 <= FRACS[j] and FRACS[j] < 1 and FRACS[j] == shifts[j] - floor(shifts[j])) if HAVE_TAPS else True",
            "input_not_written": "forall(0, n, lambda j: data[j] == old_data[j])",
        },
        raises={},
        post_hook=lambda eng, st, fid, res, entry: (st.tags.setdefault("ghosts", {}).__setitem__("HAVE_TAPS", "TAPS" in st.tags.get("ghosts", {})), st.tags["ghosts"].setdefault("TAPS", None), st.tags["ghosts"].setdefault("FRACS", None)),
        opts={"callee": False, "sat_level": 1, "ghost_defs": {"zp": "lambda q: ite(0 <= q and q < n, data[q], 0)", "cl": "lambda q: ite(q < -(halfp + 1), -(halfp + 1), ite(q > n + (halfp - 1), n + (halfp - 1), q))"}},
    )
)

_orig = None


def install(eng):
    # record the taps / fraction handed to lagrange_taps by the caller (ghosts of timeshift)
    u = eng.contracts.get(f"{M}:lagrange_taps")
    if u is not None:

        def call_post(eng_, st, fid, res):
            eng_.set_ghost("TAPS", res, st)
            sf = eng_.deref(st, eng_.lookup(st, fid, "shift_fracs"))
            eng_.set_ghost("FRAC", sf.fn(()) if not sf.shape else sf.fn((0,)), st)
            eng_.set_ghost("FRACS", sf, st)

        u.call_post = call_post


PROPERTY_INFO = {
    "C16": {
        "not_decided": ["time-varying-shift path and the DataFrame wrapper: bounded run-time checks only", "float rounding of the tap products (A-REAL)"],
        "bounded": ["C16.paths_agree"],
    }
}


def bounded_paths(tier, seed):
    """C16 stand-in (bounded): constant vs time-varying path, polynomial reproduction, integer shifts, df wrapper"""
    import numpy as np
    import pandas as pd
    from speckit.dsp import timeshift, df_timeshift

    rng = np.random.default_rng(seed)
    fails, n = [], 0
    orders = [1, 3, 5, 9, 13, 31, 101] if tier == "quick" else list(range(1, 112, 2))
    for order in orders:
        h = (order + 1) // 2
        N = 6 * h + 40
        x = rng.normal(size=N)
        for s in (0.25, -0.75, 3.0, -2.0, 2.5 + rng.uniform(), -(1.5 + rng.uniform())):
            n += 1
            a = timeshift(x, s, order=order)
            b = timeshift(x, np.full(N, s), order=order)
            lo, hi = 2 * h + int(abs(s)) + 2, N - (2 * h + int(abs(s)) + 2)
            if np.max(np.abs(a[lo:hi] - b[lo:hi])) > 1e-9 * max(1, np.max(np.abs(x))):
                fails.append({"label": "C16.paths_agree", "input": {"order": order, "shift": s}, "detail": "constant and time-varying paths differ on interior samples"})
            if float(s).is_integer():
                k = int(s)
                ref = x[np.clip(np.arange(N) + k, 0, N - 1)]
                if np.max(np.abs(a - ref)) > 1e-12:
                    fails.append({"label": "C16.integer_shift", "input": {"order": order, "shift": s}, "detail": "integer shift is not a pure displacement with ends held"})
        # polynomial reproduction up to degree min(order, 6)
        t = np.arange(N, dtype=float)
        for deg in range(0, min(order, 6) + 1):
            n += 1
            p = (t / N) ** deg
            s = 0.37
            out = timeshift(p, s, order=order)
            ref = ((t + s) / N) ** deg
            if np.max(np.abs(out[lo:hi] - ref[lo:hi])) > 1e-8:
                fails.append({"label": "C16.polynomial_reproduction", "input": {"order": order, "degree": deg}, "detail": "polynomial not reproduced on interior samples"})
    df = pd.DataFrame({"a": rng.normal(size=200), "b": rng.normal(size=200), "c": ["x"] * 200})
    n += 1
    out = df_timeshift(df, 10.0, 0.25, columns=["a"])
    if not np.allclose(out["a_shifted"].to_numpy(), timeshift(df["a"].to_numpy(), 2.5)) or not out["b"].equals(df["b"]) or "b_shifted" in out:
        fails.append({"label": "C16.df_wrapper", "input": {}, "detail": "df_timeshift does not apply seconds*fs samples to the selected column only"})
    # integer / float columns, in place and with suffix: the column becomes timeshift(column, seconds*fs) (no truncation)
    for inplace in (False, True):
        dfi = pd.DataFrame({"t": np.arange(200, dtype=float), "counts": 3 * np.arange(200) + 7, "other": np.arange(200)})
        ref = {c: timeshift(dfi[c].to_numpy().astype(float), 1.5) for c in ("t", "counts")}
        n += 1
        o2 = df_timeshift(dfi.copy(), 4.0, 0.375, columns=["t", "counts"], inplace=inplace)
        for c in ("t", "counts"):
            got = o2[c if inplace else c + "_shifted"].to_numpy().astype(float)
            if len(got) == len(ref[c]) and np.max(np.abs(got - ref[c])[40:160]) > 1e-9:
                fails.append({"label": "C16.df_wrapper", "input": {"column": c, "dtype": str(dfi[c].dtype), "inplace": inplace}, "detail": "column differs from timeshift(column, seconds*fs)"})
        if not o2["other"].equals(dfi["other"]):
            fails.append({"label": "C16.df_wrapper", "input": {"inplace": inplace}, "detail": "an unselected column was changed"})
    return {"evaluations": n, "bound": f"orders {orders[:3]}..{orders[-1]}, 6 shifts each, degrees <= 6", "failures": fails[:5], "n_failures": len(fails)}


BOUNDED = {"C16.paths_agree": bounded_paths}
