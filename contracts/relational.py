"""Relational lemmas over the kernel specification (C07 gain clause, C06 channel scaling).

The kernels are proved equal to the windowed-DFT specification X(k), Y(k), Z(k) = X conj(Y) (contracts/core.py, C01).
The statements here relate two *runs of that specification*: if channel 2 is g times channel 1 (x2[i] == g*x1[i] for
every sample) then, for every window, segmentation, frequency and each detrending family,

    Y(k) == g * X(k) for every segment k,    hence    MYY == g^2 MXX,  mu_r == g MXX,  mu_i == 0,

and therefore, on the attribute formulas of SpectrumResult (contracts/analysis_result.py), Hxy == g and coh == 1
wherever XX != 0 and g != 0.  Each lemma is ghost Python in specs/lemmas.py, proved by loop-invariant induction by
the same engine (base case = inv_init, step = inv_step); lemmas call each other by contract.  Nothing here is
repository code: these are lemmas over the contracts, as section 2 of DESIGN.md planned (L4 linearity).
"""
import os

from pyvc.unitdef import Unit
from contracts_core import kernel_ghost_defs  # noqa: E402  (loaded before this file)

LEM = os.path.join(os.path.dirname(os.path.dirname(os.path.abspath(__file__))), "specs", "lemmas.py")
UNITS = []

SCALED = "forall(0, N, lambda i: x2[i] == g * x1[i])"
REC = {"x1": ("arr", "real", ("N",)), "x2": ("arr", "real", ("N",))}
GH = {"N": ("int", "len(x1)")}

UNITS.append(
    Unit(
        id="lemma.scaled_segment_mean",
        module=LEM,
        func="lemma_scaled_segment_mean",
        props=["C07", "C06"],
        ghosts=dict(GH),
        params={**REC, "s": "int", "L": "int", "g": "real"},
        requires=["L >= 1", "0 <= s", "s + L <= N", SCALED],
        loops={"0": dict(label="induction", inv=["Sum(0, n, lambda i: x2[s + i]) == g * Sum(0, n, lambda i: x1[s + i])"])},
        ensures={"scaled_mean": "SegMean(x2, s, L) == g * SegMean(x1, s, L)"},
        returns="none",
        opts={"callee": True},
    )
)

UNITS.append(
    Unit(
        id="lemma.scaled_alpha",
        module=LEM,
        func="lemma_scaled_alpha",
        props=["C07", "C06"],
        ghosts=dict(GH),
        params={**REC, "L": "int", "P1": "int", "Q": ("arr", "real", ("L", "P1")), "s": "int", "c": "int", "g": "real"},
        requires=["L >= 1", "0 <= s", "s + L <= N", "0 <= c", "c < P1", SCALED],
        loops={"0": dict(label="induction", inv=["Sum(0, m, lambda i: Q[i, c] * x2[s + i]) == g * Sum(0, m, lambda i: Q[i, c] * x1[s + i])"])},
        ensures={"scaled_coefficient": "Alpha(x2, Q, s, L, c) == g * Alpha(x1, Q, s, L, c)"},
        returns="none",
        opts={"callee": True},
    )
)

UNITS.append(
    Unit(
        id="lemma.scaled_trend",
        module=LEM,
        func="lemma_scaled_trend",
        props=["C07", "C06"],
        ghosts=dict(GH),
        params={**REC, "L": "int", "P1": "int", "Q": ("arr", "real", ("L", "P1")), "s": "int", "n": "int", "g": "real"},
        requires=["L >= 1", "0 <= s", "s + L <= N", "1 <= P1", "P1 <= 3", "0 <= n", "n < L", SCALED],
        loops={"0": dict(label="induction", inv=["Sum(0, c, lambda j: Q[n, j] * Alpha(x2, Q, s, L, j)) == g * Sum(0, c, lambda j: Q[n, j] * Alpha(x1, Q, s, L, j))"])},
        ensures={"scaled_trend": "Sum(0, P1, lambda j: Q[n, j] * Alpha(x2, Q, s, L, j)) == g * Sum(0, P1, lambda j: Q[n, j] * Alpha(x1, Q, s, L, j))"},
        returns="none",
        opts={"callee": True},
    )
)

SEG_REQ = ["L >= 1", "K >= 1", "len(w) == L", "forall(0, K, lambda j: 0 <= starts[j] and starts[j] + L <= N)", SCALED]
KPAR = {**REC, "L": "int", "w": ("arr", "real", ("L",)), "starts": ("arr", "int", ("K",)), "omega": "real", "g": "real"}
KGH = {"N": ("int", "len(x1)"), "K": ("int", "len(starts)")}

for _fam in ("win_only", "detrend0", "poly"):
    _gd = kernel_ghost_defs(_fam, True, ["x1", "x2"])
    _gd["XN"] = "lambda k, n: Dft(vx(k), n, omega)"
    _gd["YN"] = "lambda k, n: Dft(vy(k), n, omega)"
    _par = dict(KPAR)
    _req = list(SEG_REQ)
    if _fam == "poly":
        _par.update({"P1": "int", "Q": ("arr", "real", ("L", "P1"))})
        _req += ["1 <= P1", "P1 <= 3"]
    # per segment: Y(k) == g * X(k)
    _p1 = dict(_par)
    _p1["k"] = "int"
    _p1.pop("K", None)
    UNITS.append(
        Unit(
            id=f"lemma.scaled_dft[{_fam}]",
            module=LEM,
            func=f"lemma_scaled_dft_{_fam}",
            props=["C07", "C06"],
            ghosts=dict(KGH),
            params=_p1,
            requires=_req + ["0 <= k", "k < K"],
            loops={"0": dict(label="induction", inv=["re(YN(k, n)) == g * re(XN(k, n)) and im(YN(k, n)) == g * im(XN(k, n))"])},
            ensures={"channel_2_dft_is_g_times_channel_1": "re(Y(k)) == g * re(X(k)) and im(Y(k)) == g * im(X(k))"},
            returns="none",
            opts={"callee": True, "ghost_defs": _gd},
        )
    )
    # all segments: the kernel statistics
    _p2 = dict(_par)
    _p2["K"] = "int"
    UNITS.append(
        Unit(
            id=f"lemma.gain_statistics[{_fam}]",
            module=LEM,
            func=f"lemma_gain_{_fam}",
            props=["C07", "C06"],
            ghosts={"N": ("int", "len(x1)")},
            params={"K": "int", **{k_: v_ for k_, v_ in _p2.items() if k_ != "K"}},
            requires=_req,
            loops={
                "0": dict(
                    label="segments",
                    inv=[
                        "Sum(0, k, lambda j: abs2(Y(j))) == g * g * Sum(0, k, lambda j: abs2(X(j)))",
                        "Sum(0, k, lambda j: re(Z(j))) == g * Sum(0, k, lambda j: abs2(X(j)))",
                        "Sum(0, k, lambda j: im(Z(j))) == 0",
                    ],
                )
            },
            ensures={
                "C06.C07.MYY_is_g2_MXX": "Mean(K, lambda k: abs2(Y(k))) == g * g * Mean(K, lambda k: abs2(X(k)))",
                "C07.mu_r_is_g_MXX": "Mean(K, lambda k: re(Z(k))) == g * Mean(K, lambda k: abs2(X(k)))",
                "C07.mu_i_is_zero": "Mean(K, lambda k: im(Z(k))) == 0",
            },
            returns="none",
            opts={"callee": False, "ghost_defs": _gd},
        )
    )


from contracts_core import seg_def  # noqa: E402

for _fam in ("win_only", "detrend0", "poly"):
    _gd = kernel_ghost_defs(_fam, True, ["x1", "x2"])
    _gd["vz"] = seg_def("y", _fam)
    _gd["W"] = "lambda k: Dft(vz(k), L, omega)"
    _gd["ZA"] = "lambda k: X(k) * conj(W(k))"
    _gd["ZB"] = "lambda k: Y(k) * conj(W(k))"
    _par = {"K": "int", **KPAR, "y": ("arr", "real", ("N",))}
    _req = list(SEG_REQ)
    if _fam == "poly":
        _par.update({"P1": "int", "Q": ("arr", "real", ("L", "P1"))})
        _req += ["1 <= P1", "P1 <= 3"]
    UNITS.append(
        Unit(
            id=f"lemma.cross_scaling[{_fam}]",
            module=LEM,
            func=f"lemma_cross_scaling_{_fam}",
            props=["C06"],
            ghosts={"N": ("int", "len(x1)")},
            params=_par,
            requires=_req,
            loops={
                "0": dict(
                    label="segments",
                    inv=[
                        "Sum(0, k, lambda j: re(ZB(j))) == g * Sum(0, k, lambda j: re(ZA(j)))",
                        "Sum(0, k, lambda j: im(ZB(j))) == g * Sum(0, k, lambda j: im(ZA(j)))",
                        "Sum(0, k, lambda j: abs2(Y(j))) == g * g * Sum(0, k, lambda j: abs2(X(j)))",
                    ],
                )
            },
            ensures={
                "C06.cross_statistic_scales_by_c": "Mean(K, lambda k: re(ZB(k))) == g * Mean(K, lambda k: re(ZA(k))) and Mean(K, lambda k: im(ZB(k))) == g * Mean(K, lambda k: im(ZA(k)))",
                "C06.auto_statistic_scales_by_c2": "Mean(K, lambda k: abs2(Y(k))) == g * g * Mean(K, lambda k: abs2(X(k)))",
            },
            returns="none",
            opts={"callee": False, "ghost_defs": _gd},
        )
    )


def _scaling_attr_level(eng, prop):
    """C06 on the attribute formulas: (XX, XY, YY) -> (c^2 XX, c XY, YY) scales Gxx by c^2, Gxy by c, Hxy by 1/c and
    leaves coh unchanged; fs -> a*fs (same statistics) divides the densities by a and multiplies ENBW by a"""
    import z3
    import sys
    from pyvc.engine import State
    from pyvc.values import Sym, Cx
    from pyvc import values as V
    from pyvc.contract import eval_text

    AR = sys.modules["contracts_analysis_result"]
    st = State()
    eng.cur_state = st
    fid = eng.new_frame(st, parent=None, module=None)
    R = lambda n: Sym(z3.Real(n), "real")
    XX, YY, S2, S12, fs, c, a = R("XX"), R("YY"), R("S2"), R("S12"), R("fs"), R("c"), R("a")
    XY = Cx(R("XY.re"), R("XY.im"))
    for t in (V.cmp(">", XX, 0), V.cmp(">", YY, 0), V.cmp(">", S2, 0), V.cmp(">", S12, 0), V.cmp(">", fs, 0), V.cmp("!=", c, 0), V.cmp(">", a, 0)):
        st.assume(t)
    base = {"XX": XX, "YY": YY, "XY": XY, "S2": S2, "S12": S12, "fs": fs}
    scaled = dict(base, XX=V.mul(V.mul(c, c), XX), XY=V.mul(c, XY))
    relab = dict(base, fs=V.mul(a, fs))

    def ev(name, env):
        e = dict(env)
        for dep in ("Gxx", "Gyy", "Gxy", "ENBW"):
            if dep != name and dep in AR.ATTR[name][1]:
                e[dep] = eval_text(eng, st, fid, AR.ATTR[dep][1], env)
        return eval_text(eng, st, fid, AR.ATTR[name][1], e)

    eng.oblige(st, "lemma", "C06.density_scales_by_c2", V.cmp("==", ev("Gxx", scaled), V.mul(V.mul(c, c), ev("Gxx", base))))
    eng.oblige(st, "lemma", "C06.cross_density_scales_by_c", V.cmp("==", ev("Gxy", scaled), V.mul(c, ev("Gxy", base))))
    eng.oblige(st, "lemma", "C06.other_density_unchanged", V.cmp("==", ev("Gyy", scaled), ev("Gyy", base)))
    eng.oblige(st, "lemma", "C06.coherence_unchanged", V.cmp("==", ev("coh", scaled), ev("coh", base)))
    eng.oblige(st, "lemma", "C06.transfer_function_scales_by_the_ratio", V.cmp("==", V.mul(c, ev("Hxy", scaled)), ev("Hxy", base)))
    eng.oblige(st, "lemma", "C06.relabelled_density_divided_by_a", V.cmp("==", V.mul(a, ev("Gxx", relab)), ev("Gxx", base)))
    eng.oblige(st, "lemma", "C06.relabelled_cross_density_divided_by_a", V.cmp("==", V.mul(a, ev("Gxy", relab)), ev("Gxy", base)))
    eng.oblige(st, "lemma", "C06.relabelled_ENBW_multiplied_by_a", V.cmp("==", ev("ENBW", relab), V.mul(a, ev("ENBW", base))))


UNITS.append(Unit(id="lemma.scaling_laws_on_the_attribute_formulas", module=LEM, func="lemma_gain_win_only", props=["C06"], kind="lemma", setup=_scaling_attr_level, opts={"callee": False}))


def _attr_level(eng, prop):
    """with XY == g*XX (real), YY == g^2*XX, XX > 0, g != 0: the attribute formulas give Hxy == g and coh == 1"""
    import z3
    import sys
    from pyvc.engine import State
    from pyvc.values import Sym, Cx
    from pyvc import values as V
    from pyvc.contract import eval_text

    AR = sys.modules["contracts_analysis_result"]
    st = State()
    eng.cur_state = st
    fid = eng.new_frame(st, parent=None, module=None)
    XX = Sym(z3.Real("XX"), "real")
    g = Sym(z3.Real("g"), "real")
    st.assume(V.cmp(">", XX, 0))
    st.assume(V.cmp("!=", g, 0))
    env = {"XX": XX, "YY": V.mul(V.mul(g, g), XX), "XY": Cx(V.mul(g, XX), 0), "g": g}
    H = eval_text(eng, st, fid, AR.ATTR["Hxy"][1], env)
    coh = eval_text(eng, st, fid, AR.ATTR["coh"][1], env)
    eng.oblige(st, "lemma", "C07.transfer_function_is_g", V.cmp("==", H, Cx(g, 0)))
    eng.oblige(st, "lemma", "C07.coherence_is_one", V.cmp("==", coh, 1))


UNITS.append(Unit(id="lemma.gain_gives_H_and_coherence", module=LEM, func="lemma_gain_win_only", props=["C07"], kind="lemma", setup=_attr_level, opts={"callee": False}))


# ---- C08: the estimate does not see what the detrending removes --------------------------------------------------------
# order 0 (mean removal): x2 = x1 + c (any constant).  order 1 / 2 (projection on the P1 = 2 / 3 orthonormal columns
# of Q): on the segment, x2 - x1 is a combination b0*Q[:,0] + b1*Q[:,1] (+ b2*Q[:,2]) of the columns.  In both cases
# the windowed detrended segment - and therefore its DFT at every frequency and every statistic built from it - is
# the same for x2 and x1.  That the polynomials of degree <= p on the segment's time axis are such combinations is the
# assumed QR contract of _build_Q (range(Q) = range(Vandermonde)); orthonormality of Q's columns is its other half.

SHIFTED = "forall(0, N, lambda i: x2[i] == x1[i] + c)"
UNITS.append(
    Unit(
        id="lemma.shifted_segment_mean",
        module=LEM,
        func="lemma_shifted_segment_mean",
        props=["C08"],
        ghosts=dict(GH),
        params={**REC, "s": "int", "L": "int", "c": "real"},
        requires=["L >= 1", "0 <= s", "s + L <= N", SHIFTED],
        loops={"0": dict(label="induction", inv=["Sum(0, n, lambda i: x2[s + i]) == Sum(0, n, lambda i: x1[s + i]) + n * c"])},
        ensures={"shifted_mean": "SegMean(x2, s, L) == SegMean(x1, s, L) + c"},
        returns="none",
        opts={"callee": True},
    )
)
_gd0 = kernel_ghost_defs("detrend0", True, ["x1", "x2"])
_gd0["XN"] = "lambda k, n: Dft(vx(k), n, omega)"
_gd0["YN"] = "lambda k, n: Dft(vy(k), n, omega)"
SEG_REQ0 = ["L >= 1", "K >= 1", "len(w) == L", "forall(0, K, lambda j: 0 <= starts[j] and starts[j] + L <= N)"]
UNITS.append(
    Unit(
        id="lemma.invariant_dft[detrend0]",
        module=LEM,
        func="lemma_invariant_dft_detrend0",
        props=["C08"],
        ghosts=dict(KGH),
        params={**REC, "L": "int", "w": ("arr", "real", ("L",)), "starts": ("arr", "int", ("K",)), "k": "int", "omega": "real", "c": "real"},
        requires=SEG_REQ0 + [SHIFTED, "0 <= k", "k < K"],
        loops={"0": dict(label="induction", inv=["re(YN(k, n)) == re(XN(k, n)) and im(YN(k, n)) == im(XN(k, n))"])},
        ensures={"C08.segment_dft_unchanged_by_a_constant": "re(Y(k)) == re(X(k)) and im(Y(k)) == im(X(k))"},
        returns="none",
        opts={"callee": True, "ghost_defs": _gd0},
    )
)
_gd0b = dict(_gd0)
_gd0b["vz"] = seg_def("y", "detrend0")
_gd0b["W"] = "lambda k: Dft(vz(k), L, omega)"
_gd0b["ZA"] = "lambda k: X(k) * conj(W(k))"
_gd0b["ZB"] = "lambda k: Y(k) * conj(W(k))"
UNITS.append(
    Unit(
        id="lemma.constant_invariance[detrend0]",
        module=LEM,
        func="lemma_constant_invariance_detrend0",
        props=["C08"],
        ghosts={"N": ("int", "len(x1)")},
        params={"K": "int", **REC, "y": ("arr", "real", ("N",)), "L": "int", "w": ("arr", "real", ("L",)), "starts": ("arr", "int", ("K",)), "omega": "real", "c": "real"},
        requires=SEG_REQ0 + [SHIFTED],
        loops={
            "0": dict(
                label="segments",
                inv=[
                    "Sum(0, k, lambda j: abs2(Y(j))) == Sum(0, k, lambda j: abs2(X(j)))",
                    "Sum(0, k, lambda j: re(ZB(j))) == Sum(0, k, lambda j: re(ZA(j)))",
                    "Sum(0, k, lambda j: im(ZB(j))) == Sum(0, k, lambda j: im(ZA(j)))",
                ],
            )
        },
        ensures={
            "C08.auto_statistic_unchanged": "Mean(K, lambda k: abs2(Y(k))) == Mean(K, lambda k: abs2(X(k)))",
            "C08.cross_statistic_unchanged": "Mean(K, lambda k: re(ZB(k))) == Mean(K, lambda k: re(ZA(k))) and Mean(K, lambda k: im(ZB(k))) == Mean(K, lambda k: im(ZA(k)))",
        },
        returns="none",
        opts={"callee": False, "ghost_defs": _gd0b},
    )
)

# projection on P1 = 2 / 3 orthonormal columns
for _p1, _bs in ((2, ["b0", "b1"]), (3, ["b0", "b1", "b2"])):
    _comb = " + ".join(f"{b} * Q[i - s, {j}]" for j, b in enumerate(_bs))
    _INSPAN = f"forall(s, s + L, lambda i: x2[i] == x1[i] + {_comb})"
    _ORTHO = " and ".join(f"Sum(0, L, lambda i: Q[i, {a}] * Q[i, {b}]) == {1 if a == b else 0}" for a in range(_p1) for b in range(_p1))
    _gram = " + ".join(f"{b} * Sum(0, m, lambda i: Q[i, c] * Q[i, {j}])" for j, b in enumerate(_bs))
    UNITS.append(
        Unit(
            id=f"lemma.shifted_alpha[P1={_p1}]",
            module=LEM,
            func=f"lemma_shifted_alpha{_p1}",
            props=["C08"],
            ghosts=dict(GH),
            params={**REC, "L": "int", "Q": ("arr", "real", ("L", _p1)), "s": "int", "c": "int", **{b: "real" for b in _bs}},
            requires=["L >= 1", "0 <= s", "s + L <= N", "0 <= c", f"c < {_p1}", _INSPAN, _ORTHO],
            loops={"0": dict(label="induction", inv=[f"Sum(0, m, lambda i: Q[i, c] * x2[s + i]) == Sum(0, m, lambda i: Q[i, c] * x1[s + i]) + {_gram}"])},
            ensures={"coefficient_shifts_by_the_added_component": "Alpha(x2, Q, s, L, c) == Alpha(x1, Q, s, L, c) + " + " + ".join(f"({b} if c == {j} else 0)" for j, b in enumerate(_bs))},
            returns="none",
            opts={"callee": True},
        )
    )
    _gdp = kernel_ghost_defs("poly", True, ["x1", "x2"])
    _gdp["XN"] = "lambda k, n: Dft(vx(k), n, omega)"
    _gdp["YN"] = "lambda k, n: Dft(vy(k), n, omega)"
    _gdp["P1"] = str(_p1)
    _comb_k = " + ".join(f"{b} * Q[i - starts[k], {j}]" for j, b in enumerate(_bs))
    UNITS.append(
        Unit(
            id=f"lemma.invariant_dft[poly,P1={_p1}]",
            module=LEM,
            func=f"lemma_invariant_dft_poly{_p1}",
            props=["C08"],
            ghosts=dict(KGH),
            params={**REC, "L": "int", "w": ("arr", "real", ("L",)), "starts": ("arr", "int", ("K",)), "k": "int", "omega": "real", "Q": ("arr", "real", ("L", _p1)), **{b: "real" for b in _bs}},
            requires=SEG_REQ0 + ["0 <= k", "k < K", f"forall(starts[k], starts[k] + L, lambda i: x2[i] == x1[i] + {_comb_k})", _ORTHO],
            loops={"0": dict(label="induction", inv=["re(YN(k, n)) == re(XN(k, n)) and im(YN(k, n)) == im(XN(k, n))"])},
            ensures={"C08.segment_dft_unchanged_by_a_component_in_span_Q": "re(Y(k)) == re(X(k)) and im(Y(k)) == im(X(k))"},
            returns="none",
            opts={"callee": True, "ghost_defs": _gdp},
        )
    )
    _gdq = dict(_gdp)
    _gdq["vz"] = seg_def("y", "poly")
    _gdq["W"] = "lambda k: Dft(vz(k), L, omega)"
    _gdq["ZA"] = "lambda k: X(k) * conj(W(k))"
    _gdq["ZB"] = "lambda k: Y(k) * conj(W(k))"
    _Bs = [b.upper() for b in _bs]
    _comb_all = " + ".join(f"{B}[j] * Q[i - starts[j], {c_}]" for c_, B in enumerate(_Bs))
    UNITS.append(
        Unit(
            id=f"lemma.trend_invariance[poly,P1={_p1}]",
            module=LEM,
            func=f"lemma_trend_invariance_poly{_p1}",
            props=["C08"],
            ghosts={"N": ("int", "len(x1)")},
            params={"K": "int", **REC, "y": ("arr", "real", ("N",)), "L": "int", "w": ("arr", "real", ("L",)), "starts": ("arr", "int", ("K",)), "omega": "real", "Q": ("arr", "real", ("L", _p1)), **{B: ("arr", "real", ("K",)) for B in _Bs}},
            # on every segment j the added trend is the combination B0[j]*Q[:,0] + B1[j]*Q[:,1] (+ B2[j]*Q[:,2])
            requires=SEG_REQ0 + [f"forall(0, K, lambda j: forall(starts[j], starts[j] + L, lambda i: x2[i] == x1[i] + {_comb_all}))", _ORTHO],
            loops={
                "0": dict(
                    label="segments",
                    inv=[
                        "Sum(0, k, lambda j: abs2(Y(j))) == Sum(0, k, lambda j: abs2(X(j)))",
                        "Sum(0, k, lambda j: re(ZB(j))) == Sum(0, k, lambda j: re(ZA(j)))",
                        "Sum(0, k, lambda j: im(ZB(j))) == Sum(0, k, lambda j: im(ZA(j)))",
                    ],
                )
            },
            ensures={
                "C08.auto_statistic_unchanged": "Mean(K, lambda k: abs2(Y(k))) == Mean(K, lambda k: abs2(X(k)))",
                "C08.cross_statistic_unchanged": "Mean(K, lambda k: re(ZB(k))) == Mean(K, lambda k: re(ZA(k))) and Mean(K, lambda k: im(ZB(k))) == Mean(K, lambda k: im(ZA(k)))",
            },
            returns="none",
            opts={"callee": False, "ghost_defs": _gdq},
        )
    )


def bounded_scaling(tier, seed):
    """C06 (bounded): multiplying a channel by c (also very small / very large c) multiplies its density by c^2 and the
    cross density by c, leaves coherence unchanged and scales the transfer function by 1/c; relabelling the samples with
    a*fs multiplies frequencies and ENBW by a and divides densities by a"""
    import numpy as np
    from speckit import SpectrumAnalyzer

    rng = np.random.default_rng(seed)
    fails, n = [], 0
    N = 6000
    s0 = rng.normal(size=N)
    x = s0 + 0.5 * rng.normal(size=N)
    y = 0.7 * s0 + 0.5 * rng.normal(size=N)
    kw = dict(olap=0.5, Jdes=30, Kdes=12, order=0, win="hann", scheduler="ltf")
    base = SpectrumAnalyzer([x, y], 10.0, **kw).compute()
    for c in (1e-12, 1e-9, 1e-3, -2.5, 1e6) if tier == "quick" else (1e-15, 1e-12, 1e-9, 1e-6, 1e-3, -2.5, 7.0, 1e6, 1e9):
        n += 1
        r = SpectrumAnalyzer([c * x, y], 10.0, **kw).compute()
        bad = []
        if np.max(np.abs(r.Gxx / (c * c) - base.Gxx) / base.Gxx) > 1e-9:
            bad.append("Gxx does not scale by c^2")
        if np.max(np.abs(r.Gxy / c - base.Gxy) / np.abs(base.Gxy)) > 1e-9:
            bad.append("Gxy does not scale by c")
        if np.max(np.abs(r.Gyy - base.Gyy) / base.Gyy) > 1e-9:
            bad.append("Gyy changed")
        if np.max(np.abs(r.coh - base.coh)) > 1e-9:
            bad.append("coherence changed")
        if np.max(np.abs(r.Hxy * c - base.Hxy) / np.abs(base.Hxy)) > 1e-9:
            bad.append("Hxy does not scale by 1/c")
        if bad:
            fails.append({"label": "C06.channel_scaling", "input": {"c": c}, "detail": "; ".join(bad)})
    for a in (0.01, 3.0, 1e4):
        n += 1
        r = SpectrumAnalyzer([x, y], 10.0 * a, **kw).compute()
        if len(r.f) != len(base.f) or np.max(np.abs(r.f / a - base.f) / base.f) > 1e-9 or np.max(np.abs(r.ENBW / a - base.ENBW) / base.ENBW) > 1e-9 or np.max(np.abs(r.Gxx * a - base.Gxx) / base.Gxx) > 1e-9:
            fails.append({"label": "C06.rate_relabelling", "input": {"a": a}, "detail": "frequencies / ENBW / densities do not scale with the sampling rate"})
    return {"evaluations": n, "bound": "one correlated pair, N=6000, scale factors 1e-12..1e6 (1e-15..1e9 thorough), rate factors 0.01, 3, 1e4", "failures": fails[:5], "n_failures": len(fails)}


def bounded_sinusoid(tier, seed):
    """C06 (bounded): a sinusoid of amplitude A analysed at its own frequency gives a power spectrum (density x ENBW)
    of A^2/2 up to the leakage of the image frequency through the side lobes (relative 4*10^(-psll/20)) - amplitudes,
    phases, segment lengths, fractional bin positions, Kaiser psll 60..200 - and the reported
    ENBW is fs*sum(w^2)/(sum w)^2 of the window actually used"""
    import numpy as np
    from speckit import SpectrumAnalyzer
    from speckit.utils import kaiser_alpha

    rng = np.random.default_rng(seed)
    fails, n = [], 0
    fs, N = 100.0, 12000
    t = np.arange(N) / fs
    for psll in (60, 120, 200) if tier == "quick" else (60, 80, 100, 120, 150, 180, 200):
        for L in (200, 257, 1000) if tier == "quick" else (128, 200, 257, 500, 1000, 4096):
            for frac in (0.0, 0.37):
                A, ph = float(rng.uniform(0.1, 50.0)), float(rng.uniform(0, 2 * np.pi))
                f0 = (L // 5 + frac) * fs / L
                x = A * np.sin(2 * np.pi * f0 * t + ph)
                n += 1
                r = SpectrumAnalyzer(x, fs, olap=0.5, order=-1, psll=psll).compute_single_bin(f0, L=L)
                ps = float(r.ps[0])
                w = np.kaiser(L + 1, kaiser_alpha(psll) * np.pi)[:-1]
                enbw = fs * np.sum(w * w) / np.sum(w) ** 2
                # the image at -f0 leaks through the side lobes: relative error up to ~2*10^(-psll/20) (cross term)
                tol = 4 * 10 ** (-psll / 20) + 1e-9
                if abs(ps - A * A / 2) > tol * A * A / 2 or abs(float(r.ENBW[0]) - enbw) > 1e-9 * enbw:
                    fails.append({"label": "C06.sinusoid_power", "input": {"psll": psll, "L": L, "bin": L // 5 + frac, "A": A}, "detail": f"ps={ps!r} (A^2/2={A*A/2!r}), ENBW={float(r.ENBW[0])!r} (fs*S2/S1^2={enbw!r})"})
    return {"evaluations": n, "bound": "psll 60..200, L 200..1000 (128..4096 thorough), integer and fractional bin positions, random amplitude and phase", "failures": fails[:5], "n_failures": len(fails)}


BOUNDED = {"C06.scaling": bounded_scaling, "C06.sinusoid": bounded_sinusoid}
PROPERTY_INFO = {
    "C06": {"bounded": ["C06.scaling", "C06.sinusoid"], "not_decided": ["sinusoid calibration A^2/2: reduces to the leakage of the window (bounded, C12)", "fs -> a*fs leaves the schedulers' L and D unchanged: relational property of the scheduler loops, bounded only"]},
    "C07": {"trusted": ["relational lemmas are statements about the kernel specification (specs/spec_lib.py); the kernels are tied to it by the C01 obligations"]},
    "C08": {"trusted": ["QR contract of numpy.linalg.qr: range(Q) = range(V), orthonormal columns (assumed, DESIGN 3.2)"]},
}
