"""Contracts for SpectrumAnalyzer.plan() (C02: "Building the plan through the analyzer never fails
for such a configuration"; closes the PlanOK assumption of the _lpsd_core / compute units).

plan() is proved against the *contract* of the configured scheduler (contracts/schedulers.py): the
scheduler call is replaced by assert-pre / havoc / assume-post, so the validation code of plan() is
checked against exactly what the schedulers were proved to deliver.  Under the property's admissible
configurations no validation branch may raise (every `raise` must be infeasible), and the returned,
cached plan satisfies the per-bin statements of C02 / C03 again (after dtype normalisation).

Variants: the four built-in schedulers, band=None, force_target_nf=False (the forced-count search is
C04, bounded).  The band filter is covered by a separate unit for ltf (kept bins are a sub-sequence).
"""
from pyvc.unitdef import Unit
import contracts_schedulers as S  # noqa: E402  (loaded by pyvc.main / the harness under this name, before this file)

M = "speckit/analysis.py"
UNITS = []


def _plan_setup(sched, band=False):
    def setup(eng, st, fid, genv):
        import ast
        from pyvc import values as V
        from pyvc.heap import DictV, ObjV

        nx = eng.fresh("nx", "int")
        fs = eng.fresh("fs", "real")
        olap = eng.fresh("final_olap", "real")
        bmin = eng.fresh("bmin", "real")
        Lmin = eng.fresh("Lmin", "int")
        Jdes = eng.fresh("Jdes", "int")
        Kdes = eng.fresh("Kdes", "int")
        if sched == "lpsd_plan":
            # the analyzer's lpsd configuration: bmin = 1, Lmin = 1 (the scheduler ignores the two keys)
            bmin, Lmin = 1, 1
        func = eng.eval1(ast.parse(sched, mode="eval").body, st, fid)
        cfg = {
            "scheduler_func": func,
            "scheduler_name": sched,
            "final_olap": olap,
            "bmin": bmin,
            "Lmin": Lmin,
            "Jdes": Jdes,
            "Kdes": Kdes,
            "num_patch_pts": eng.fresh("num_patch_pts", "int"),
            "force_target_nf": False,
            "band": None,
        }
        if band:
            lo, hi = eng.fresh("band_lo", "real"), eng.fresh("band_hi", "real")
            cfg["band"] = (lo, hi)
            genv.update(band_lo=lo, band_hi=hi)
        cref = eng.alloc(st, DictV(cfg))
        ref = eng.alloc(st, ObjV("SpectrumAnalyzer", {"nx": nx, "fs": fs, "config": cref, "verbose": False, "_plan_cache": None}))
        eng.setvar(st, fid, "self", ref)
        genv.update(N=nx, fs=fs, olap=olap, bmin=bmin, Lmin=Lmin, Jdes=Jdes, Kdes=Kdes)
        st.tags["analyzer"] = ref.loc

    return setup


def _cached_hook(eng, st, fid, res, entry):
    S.bin_ghost(eng, st, fid, res, entry)
    o = st.heap[st.tags["analyzer"]]
    eng.set_ghost("PLAN_CACHE", o.fields["_plan_cache"], st)


PLAN_LOOPS = {
    # loop ordinals in plan(): 0 = for k in REQUIRED (unrolled), 1 = validation of D, 2 = band filter keys (unrolled)
    "1": dict(
        label="validate",
        types={"D_norm": "list[list[int]]"},
        inv={
            "lens": "len(D_norm) == _i",
            "copied": "forall(0, _i, lambda q: len(D_norm[q]) == len(plan_output['D'][q]) and forall(0, len(D_norm[q]), lambda m: D_norm[q][m] == plan_output['D'][q][m]))",
        },
    )
}

for _s in ("ltf_plan", "lpsd_plan", "vectorized_ltf_plan", "new_ltf_plan"):
    _c03 = S.BIN_C03V if _s == "vectorized_ltf_plan" else S.BIN_C03
    UNITS.append(
        Unit(
            id=f"analysis.SpectrumAnalyzer.plan[{_s}]",
            module=M,
            func="SpectrumAnalyzer.plan",
            props=["C02", "C03"],
            setup=_plan_setup(_s),
            requires=list(S.ADMISSIBLE),
            loops=PLAN_LOOPS,
            ensures={**S.PLAN_POST, **S.BIN_C02, **_c03, "C02.plan_is_cached": "PLAN_CACHE is result"},
            raises={},  # "never fails": every raise statement must be unreachable
            post_hook=_cached_hook,
            opts={"ghost_defs": S.GD, "callee": False},
        )
    )

# band filter: the kept bins are those with band_lo <= f <= band_hi; every kept bin still satisfies the per-bin
# segmentation statements (C02); raises only when no bin lies in the band / the band is not ordered
UNITS.append(
    Unit(
        id="analysis.SpectrumAnalyzer.plan[ltf_plan,band]",
        module=M,
        func="SpectrumAnalyzer.plan",
        props=["C02"],
        setup=_plan_setup("ltf_plan", band=True),
        requires=list(S.ADMISSIBLE),
        loops=PLAN_LOOPS,
        ensures={**S.BIN_C02, "C02.kept_bins_in_band": "band_lo <= result['f'][i] and result['f'][i] <= band_hi", "C02.nf_is_length": "result['nf'] == len(result['f']) and len(result['D']) == result['nf'] and len(result['L']) == result['nf']"},
        raises={"ValueError": True},
        post_hook=_cached_hook,
        opts={"ghost_defs": S.GD, "callee": False},
    )
)


# ---- C04: forcing a target bin count (utils.find_Jdes_binary_search, plan(force_target_nf=True)) --------------------
# A-DET (listed in the trusted base): a scheduler is a deterministic function of its keyword arguments, so the number
# of bins it returns is a function NFOF(scheduler, N, fs, olap, bmin, Lmin, Jdes, Kdes).  The search is proved for an
# arbitrary such function (the scheduler parameter is an uninterpreted callable): it terminates and returns None or a
# Jdes in [MIN_JDES, MAX_JDES] with NFOF(..., Jdes, ...) == target_nf.  plan() with force_target_nf then runs the
# scheduler at that Jdes: the plan has exactly the target count, or RuntimeError is raised.

SCHED_TAG = {"scheduler": 0, "ltf_plan": 1, "lpsd_plan": 2, "vectorized_ltf_plan": 3, "new_ltf_plan": 4}


def _nfof_term(eng, tag, d):
    import z3
    from pyvc import values as V
    from pyvc.values import Sym

    key = ("nfof",)
    f = eng.__dict__.setdefault("_nfof_fn", None)
    if f is None:
        f = z3.Function("NFOF", z3.IntSort(), z3.IntSort(), z3.RealSort(), z3.RealSort(), z3.RealSort(), z3.IntSort(), z3.IntSort(), z3.IntSort(), z3.IntSort())
        eng._nfof_fn = f
    g = lambda k, kind: (V.int_term(d[k]) if kind == "int" else V.real_term(d[k])) if k in d else (z3.IntVal(0) if kind == "int" else z3.RealVal(0))
    return Sym(f(z3.IntVal(tag), g("N", "int"), g("fs", "real"), g("olap", "real"), g("bmin", "real"), g("Lmin", "int"), g("Jdes", "int"), g("Kdes", "int")), "int")


def _search_setup(eng, st, fid, genv):
    from pyvc.heap import DictV
    from pyvc.values import Opaque

    d = {"N": eng.fresh("arg_N", "int"), "fs": eng.fresh("arg_fs", "real"), "olap": eng.fresh("arg_olap", "real"), "bmin": eng.fresh("arg_bmin", "real"), "Lmin": eng.fresh("arg_Lmin", "int"), "Kdes": eng.fresh("arg_Kdes", "int")}
    eng.setvar(st, fid, "args", eng.alloc(st, DictV(d)))
    eng.setvar(st, fid, "scheduler", Opaque("scheduler", {"callable": True, "__name__": "scheduler"}))
    eng.setvar(st, fid, "target_nf", eng.fresh("target_nf", "int"))


UNITS.append(
    Unit(
        id="utils.find_Jdes_binary_search",
        module="speckit/utils.py",
        func="find_Jdes_binary_search",
        props=["C04"],
        setup=_search_setup,
        returns=lambda eng, st, name, env: _search_result(eng, st),
        loops={"0": dict(label="search", types={"Jdes": "int", "lower": "int", "upper": "int"}, variant="upper - lower + 1", decrease="1", inv={"range": "100 <= lower and upper <= 1000000 and lower <= upper + 1"})},
        ensures={"C04.exact_count_or_none": "result is None or (100 <= result and result <= 1000000 and NFOF(scheduler, args, result) == target_nf)"},
        raises={},
        opts={"callee": True, "may_return_none": True},
    )
)


def _search_result(eng, st):
    # the int outcome of the call (the None outcome is the second normal outcome: opts may_return_none)
    return eng.fresh("solved_Jdes", "int")


def install(eng):
    from pyvc.heap import Builtin, DictV, Closure
    from pyvc.values import Opaque

    def sched_call(eng_, st, fn, args, kwargs, line):
        d = {k: eng_.deref(st, v) for k, v in kwargs.items()}
        eng_.trusted.add("A-DET: a scheduler's bin count is a function NFOF of (scheduler, N, fs, olap, bmin, Lmin, Jdes, Kdes)")
        return eng_.alloc(st, DictV({"nf": _nfof_term(eng_, 0, d)}))

    eng.call_hooks["scheduler"] = sched_call

    def nfof(eng_, st, sched, args, jdes):
        sched = eng_.deref(st, sched)
        name = sched.name if isinstance(sched, (Opaque, Closure)) else "scheduler"
        d = dict(eng_.deref(st, args).d)
        d = {k: eng_.deref(st, v) for k, v in d.items()}
        d["Jdes"] = eng_.deref(st, jdes)
        return _nfof_term(eng_, SCHED_TAG.get(name, 0), d)

    eng.builtins["NFOF"] = Builtin("NFOF", nfof, True)


def _det_post(name):
    def call_post(eng, st, fid, res):
        from pyvc import values as V

        d = {k: eng.deref(st, v) for k, v in eng.deref(st, st.frames[fid]["vars"]["args"]).d.items()}
        if name == "lpsd_plan":
            d = dict(d)  # lpsd ignores bmin / Lmin: they are part of the configuration key all the same
        r = eng.deref(st, res)
        st.assume(V.cmp("==", r.d["nf"], _nfof_term(eng, SCHED_TAG[name], d)))
        eng.trusted.add("A-DET: a scheduler's bin count is a function NFOF of (scheduler, N, fs, olap, bmin, Lmin, Jdes, Kdes)")

    return call_post


for _u in S.UNITS:
    if _u.id in ("schedulers.ltf_plan", "schedulers.lpsd_plan", "schedulers.vectorized_ltf_plan", "schedulers.new_ltf_plan"):
        _u.call_post = _det_post(_u.func)


def _force_setup(sched):
    base = _plan_setup(sched)

    def setup(eng, st, fid, genv):
        from pyvc.heap import DictV

        base(eng, st, fid, genv)
        o = st.heap[st.tags["analyzer"]]
        cfg = dict(st.heap[o.fields["config"].loc].d)
        cfg["force_target_nf"] = True
        st.heap[o.fields["config"].loc] = DictV(cfg)
        genv["TARGET"] = cfg["Jdes"]  # with force_target_nf the configured Jdes is the target count

    return setup


for _s in ("ltf_plan", "lpsd_plan", "vectorized_ltf_plan", "new_ltf_plan"):
    UNITS.append(
        Unit(
            id=f"analysis.SpectrumAnalyzer.plan[{_s},force_target_nf]",
            module=M,
            func="SpectrumAnalyzer.plan",
            props=["C04"],
            setup=_force_setup(_s),
            requires=[c for c in S.ADMISSIBLE if "Jdes" not in c] + ["Jdes >= 1"],
            loops=PLAN_LOOPS,
            ensures={"C04.forced_count_is_exact": "result['nf'] == TARGET and len(result['f']) == TARGET"},
            raises={"RuntimeError": True},  # "... or an error"
            post_hook=_cached_hook,
            opts={"ghost_defs": S.GD, "callee": False},
        )
    )


# ---- bounded stand-ins (C02 end-to-end, C03 vectorised lookup slack, C04 clauses no contract within reach decides) ----


def _configs(rng, n, big=False):
    import numpy as np

    out = []
    for t in range(n):
        N = int(rng.integers(8, 200000 if (big and t % 5 == 0) else 5000))
        olap = float(rng.choice([0.0, 0.3, 0.5, 0.75, 0.9, 0.97, rng.uniform(0, 0.999)]))
        bmin = float(rng.uniform(1.0, min(N / 2 - 0.01, 12.0))) if t % 3 else 1.0
        Lmin = int(rng.integers(1, N + 1)) if t % 4 == 0 else int(rng.integers(1, max(2, N // 8)))
        out.append(dict(N=N, fs=float(rng.uniform(0.1, 100.0)), olap=olap, bmin=bmin, Lmin=Lmin, Jdes=int(rng.integers(1, 200)), Kdes=int(rng.integers(1, 120))))
    return out


def bounded_c04(tier, seed):
    """C04 (bounded): monotone L / K and realised overlap for the vectorised and new_ltf planners, log spacing of the
    vectorised planner, 'vectorised nf within 10 % of the iterative one' on the design grid, forced bin count through
    the analyzer"""
    import warnings
    import numpy as np
    from speckit.schedulers import ltf_plan, vectorized_ltf_plan, new_ltf_plan
    from speckit import SpectrumAnalyzer

    warnings.filterwarnings("ignore")
    rng = np.random.default_rng(seed)
    fails, n = [], 0
    for a in _configs(rng, 150 if tier == "quick" else 1500):
        for nm, f in (("vectorized_ltf_plan", vectorized_ltf_plan), ("new_ltf_plan", new_ltf_plan)):
            n += 1
            p = f(**a)
            L, K, O = np.asarray(p["L"]), np.asarray(p["K"]), np.asarray(p["O"])
            if np.any(np.diff(L) > 0) or np.any(np.diff(K) < 0):
                fails.append({"label": "C04.monotone", "input": {"scheduler": nm, "args": a}, "detail": "L increases or K decreases along the plan"})
            for j in range(len(L)):
                d = np.asarray(p["D"][j])
                want = float(np.mean((L[j] - np.diff(d)) / L[j])) if len(d) > 1 else 0.0
                if abs(O[j] - want) > 1e-9 + 1.0 / max(1, L[j]):
                    # the vectorised closed form (L-shift)/L differs from the realised mean by at most the rounding of the starts
                    fails.append({"label": "C04.reported_overlap", "input": {"scheduler": nm, "args": a, "bin": j}, "detail": f"O={O[j]!r}, realised mean overlap {want!r}"})
                    break
    # vectorised vs iterative number of bins (design grid: the statement is about realistic analysis sizes)
    worst = 0.0
    grid = [(N, J, Kd, ol) for N in ((10000, 100000) if tier == "quick" else (10000, 100000, 1000000)) for J in (100, 300, 1000, 3000) for Kd in (10, 50, 100, 500) for ol in (0.5, 0.75, 0.9)]
    for N, J, Kd, ol in grid[:: (4 if tier == "quick" else 1)]:
        n += 1
        a = dict(N=N, fs=2.0, olap=ol, bmin=1.0, Lmin=1, Jdes=J, Kdes=Kd)
        n1, n2 = ltf_plan(**a)["nf"], vectorized_ltf_plan(**a)["nf"]
        rel = abs(n2 - n1) / n1
        worst = max(worst, rel)
        if rel > 0.10:
            fails.append({"label": "C04.vectorised_nf_within_10pct", "input": {"args": a}, "detail": f"iterative nf={n1}, vectorised nf={n2} ({100*rel:.1f} %)"})
    # forced bin count through the analyzer: exactly the count, or an error
    x = rng.normal(size=4000)
    for sched in ("ltf", "lpsd", "vectorized_ltf", "new_ltf"):
        for target in (150, 300) if tier == "quick" else (120, 150, 300, 500, 800):
            n += 1
            try:
                p = SpectrumAnalyzer(x, 10.0, olap=0.5, Jdes=target, Kdes=10, scheduler=sched, win="hann", force_target_nf=True).plan()
                if int(p["nf"]) != target or len(p["f"]) != target:
                    fails.append({"label": "C04.forced_count", "input": {"scheduler": sched, "target": target}, "detail": f"plan has nf={p['nf']}"})
            except RuntimeError:
                pass
    return {"evaluations": n, "bound": f"random admissible configurations N<=5000 (seeded), design grid N<=1e{5 if tier == 'quick' else 6}; worst vectorised/iterative nf deviation {100*worst:.1f} %", "failures": fails[:6], "n_failures": len(fails)}


def bounded_c03_vectorised(tier, seed):
    """C03 (bounded): the vectorised planner's bins do not fall below bmin by more than the rounding of L and the
    spacing of its lookup grid allow: b >= bmin * f_grid[idx-1]/f_grid[idx] - rounding"""
    import warnings
    import numpy as np
    from speckit.schedulers import vectorized_ltf_plan

    warnings.filterwarnings("ignore")
    rng = np.random.default_rng(seed)
    fails, n = [], 0
    for a in _configs(rng, 150 if tier == "quick" else 1500):
        n += 1
        p = vectorized_ltf_plan(**a)
        fmin, fmax = a["bmin"] * a["fs"] / a["N"], a["fs"] / 2
        ratio = (fmax / fmin) ** (1.0 / max(1, 10 * a["Jdes"] - 1))  # spacing of the logarithmic lookup grid
        b, L = np.asarray(p["b"]), np.asarray(p["L"])
        low = a["bmin"] / ratio * (1 - 0.5 / L) - 1e-9
        bad = np.nonzero((b < low) & (L < a["N"]))[0]
        if len(bad):
            j = int(bad[0])
            fails.append({"label": "C03.bmin_up_to_lookup_grid", "input": {"args": a, "bin": j}, "detail": f"b={b[j]!r} < bmin/ratio*(1-1/(2L))={low[j]!r}"})
    return {"evaluations": n, "bound": "random admissible configurations N<=5000 (seeded)", "failures": fails[:5], "n_failures": len(fails)}


def bounded_plan_end_to_end(tier, seed):
    """C02 (bounded): SpectrumAnalyzer(...).plan() through the public constructor never raises for admissible
    configurations (the constructor's own parameter handling is outside the plan() unit)"""
    import warnings
    import numpy as np
    from speckit import SpectrumAnalyzer

    warnings.filterwarnings("ignore")
    rng = np.random.default_rng(seed)
    fails, n = [], 0
    for a in _configs(rng, 60 if tier == "quick" else 600):
        x = rng.normal(size=a["N"])
        for sched in ("ltf", "lpsd", "vectorized_ltf", "new_ltf"):
            n += 1
            kw = dict(olap=a["olap"], Jdes=a["Jdes"], Kdes=a["Kdes"], scheduler=sched, win="hann")
            if sched != "lpsd":
                kw.update(bmin=a["bmin"], Lmin=a["Lmin"])
            try:
                p = SpectrumAnalyzer(x, a["fs"], **kw).plan()
                ok = all(len(d) >= 1 and d[0] == 0 and d[-1] + l == a["N"] and np.all(np.diff(d) > 0) for d, l in zip(p["D"], p["L"]))
                if not ok:
                    fails.append({"label": "C02.plan_through_analyzer", "input": {"scheduler": sched, "args": a}, "detail": "a bin's starts do not run from 0 to N-L strictly increasing"})
            except Exception as e:
                fails.append({"label": "C02.plan_through_analyzer", "input": {"scheduler": sched, "args": a}, "detail": "plan() raised " + repr(e)[:120]})
    return {"evaluations": n, "bound": "random admissible configurations N<=5000 x 4 schedulers (seeded)", "failures": fails[:5], "n_failures": len(fails)}


BOUNDED = {"C04.schedulers": bounded_c04, "C03.vectorised_lookup": bounded_c03_vectorised, "C02.plan_end_to_end": bounded_plan_end_to_end}
PROPERTY_INFO = {
    "C02": {"bounded": ["C02.plan_end_to_end"], "trusted": ["A-DET (forced count only)"]},
    "C03": {"bounded": ["C03.vectorised_lookup"], "not_decided": ["vectorised scheduler: 'no bin below bmin by more than ... the spacing of its lookup grid allows' - the grid is np.logspace; bounded run-time clause only"]},
    "C04": {
        "bounded": ["C04.schedulers"],
        "not_decided": [
            "'the vectorised scheduler produces the same number of bins as the iterative one to within 10 %' relates the trip counts of two loops driven by a transcendental recurrence: bounded grid only",
            "monotone L / K, log spacing and realised overlap for vectorized_ltf_plan and new_ltf_plan: bounded (proved for ltf_plan and lpsd_plan)",
        ],
    },
}
