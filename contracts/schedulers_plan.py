"""Contracts for SpectrumAnalyzer.plan() (C02: "Building the plan through the analyzer never fails
for such a configuration"; closes the PlanOK assumption of the _lpsd_core / compute units).

plan() is proved against the *contract* of the configured scheduler (contracts/schedulers.py): the
scheduler call is replaced by assert-pre / havoc / assume-post, so the validation code of plan() is
checked against exactly what the schedulers were proved to deliver.  Under the property's admissible
configurations no validation branch may raise (every `raise` must be infeasible), and the returned,
cached plan satisfies the per-bin statements of C02 / C03 again (after dtype normalisation).

Variants: the four built-in schedulers, band=None, force_target_nf=False (the forced-count search is
C04, bounded).  The band filter is covered by a separate unit for ltf (kept bins are a sub-sequence).
"""
from pyvc.unitdef import Unit
import contracts_schedulers as S  # noqa: E402  (loaded by pyvc.main / the harness under this name, before this file)

M = "speckit/analysis.py"
UNITS = []


def _plan_setup(sched, band=False):
    def setup(eng, st, fid, genv):
        import ast
        from pyvc import values as V
        from pyvc.heap import DictV, ObjV

        nx = eng.fresh("nx", "int")
        fs = eng.fresh("fs", "real")
        olap = eng.fresh("final_olap", "real")
        bmin = eng.fresh("bmin", "real")
        Lmin = eng.fresh("Lmin", "int")
        Jdes = eng.fresh("Jdes", "int")
        Kdes = eng.fresh("Kdes", "int")
        if sched == "lpsd_plan":
            # the analyzer's lpsd configuration: bmin = 1, Lmin = 1 (the scheduler ignores the two keys)
            bmin, Lmin = 1, 1
        func = eng.eval1(ast.parse(sched, mode="eval").body, st, fid)
        cfg = {
            "scheduler_func": func,
            "scheduler_name": sched,
            "final_olap": olap,
            "bmin": bmin,
            "Lmin": Lmin,
            "Jdes": Jdes,
            "Kdes": Kdes,
            "num_patch_pts": eng.fresh("num_patch_pts", "int"),
            "force_target_nf": False,
            "band": None,
        }
        if band:
            lo, hi = eng.fresh("band_lo", "real"), eng.fresh("band_hi", "real")
            cfg["band"] = (lo, hi)
            genv.update(band_lo=lo, band_hi=hi)
        cref = eng.alloc(st, DictV(cfg))
        ref = eng.alloc(st, ObjV("SpectrumAnalyzer", {"nx": nx, "fs": fs, "config": cref, "verbose": False, "_plan_cache": None}))
        eng.setvar(st, fid, "self", ref)
        genv.update(N=nx, fs=fs, olap=olap, bmin=bmin, Lmin=Lmin, Jdes=Jdes, Kdes=Kdes)
        st.tags["analyzer"] = ref.loc

    return setup


def _cached_hook(eng, st, fid, res, entry):
    S.bin_ghost(eng, st, fid, res, entry)
    o = st.heap[st.tags["analyzer"]]
    eng.set_ghost("PLAN_CACHE", o.fields["_plan_cache"], st)


PLAN_LOOPS = {
    # loop ordinals in plan(): 0 = for k in REQUIRED (unrolled), 1 = validation of D, 2 = band filter keys (unrolled)
    "1": dict(
        label="validate",
        types={"D_norm": "list[list[int]]"},
        inv={
            "lens": "len(D_norm) == _i",
            "copied": "forall(0, _i, lambda q: len(D_norm[q]) == len(plan_output['D'][q]) and forall(0, len(D_norm[q]), lambda m: D_norm[q][m] == plan_output['D'][q][m]))",
        },
    )
}

for _s in ("ltf_plan", "lpsd_plan", "vectorized_ltf_plan", "new_ltf_plan"):
    _c03 = S.BIN_C03V if _s == "vectorized_ltf_plan" else S.BIN_C03
    UNITS.append(
        Unit(
            id=f"analysis.SpectrumAnalyzer.plan[{_s}]",
            module=M,
            func="SpectrumAnalyzer.plan",
            props=["C02", "C03"],
            setup=_plan_setup(_s),
            requires=list(S.ADMISSIBLE),
            loops=PLAN_LOOPS,
            ensures={**S.PLAN_POST, **S.BIN_C02, **_c03, "C02.plan_is_cached": "PLAN_CACHE is result"},
            raises={},  # "never fails": every raise statement must be unreachable
            post_hook=_cached_hook,
            opts={"ghost_defs": S.GD, "callee": False},
        )
    )

# band filter: the kept bins are those with band_lo <= f <= band_hi; every kept bin still satisfies the per-bin
# segmentation statements (C02); raises only when no bin lies in the band / the band is not ordered
UNITS.append(
    Unit(
        id="analysis.SpectrumAnalyzer.plan[ltf_plan,band]",
        module=M,
        func="SpectrumAnalyzer.plan",
        props=["C02"],
        setup=_plan_setup("ltf_plan", band=True),
        requires=list(S.ADMISSIBLE),
        loops=PLAN_LOOPS,
        ensures={**S.BIN_C02, "C02.kept_bins_in_band": "band_lo <= result['f'][i] and result['f'][i] <= band_hi", "C02.nf_is_length": "result['nf'] == len(result['f']) and len(result['D']) == result['nf'] and len(result['L']) == result['nf']"},
        raises={"ValueError": True},
        post_hook=_cached_hook,
        opts={"ghost_defs": S.GD, "callee": False},
    )
)
