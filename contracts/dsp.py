"""Contracts for speckit/dsp.py (C19; C16 is in contracts/timeshift.py)."""
import os

from pyvc.unitdef import Unit

M = "speckit/dsp.py"
LEM = os.path.join(os.path.dirname(os.path.dirname(os.path.abspath(__file__))), "specs", "lemmas.py")
UNITS = []

# ---- inductive lemmas (proved here, cited below) ------------------------------------------------
UNITS.append(
    Unit(
        id="lemma.sum_shift",
        module=LEM,
        func="lemma_sum_shift",
        props=["C19"],
        ghosts={"NN": ("int", "len(x)")},
        params={"x": ("arr", "real", ("NN",)), "c": "real", "M": "int"},
        requires=["M >= 0", "M <= NN"],
        loops={"0": dict(inv=["Sum(0, n, lambda i: x[i] - c) == Sum(0, n, lambda i: x[i]) - n * c"], label="induction")},
        ensures={"sum_shift": "Sum(0, M, lambda i: x[i] - c) == Sum(0, M, lambda i: x[i]) - M * c"},
        returns="none",
        opts={"callee": True},
    )
)

# ---- polynomial_detrend ----------------------------------------------------------------------------
UNITS.append(
    Unit(
        id="dsp.polynomial_detrend[order=0]",
        module=M,
        func="polynomial_detrend",
        props=["C19"],
        ghosts={"n": ("int", "len(x)")},
        params={"x": ("arr", "real", ("n",)), "order": ("const", 0)},
        requires=["n >= 1", "order == 0"],
        returns=("arr", "real", ("n",)),
        cites=[{"lemma": "lemma.sum_shift", "bind": {"c": "Sum(0, n, lambda i: x[i]) / n", "M": "n"}}],
        ensures={
            "mean_removed": "forall(0, n, lambda i: result[i] == x[i] - Sum(0, n, lambda j: x[j]) / n)",
            "orthogonal_to_constants": "Sum(0, n, lambda i: result[i]) == 0",
            "input_not_written": "forall(0, n, lambda i: x[i] == old_x[i])",
            "length": "len(result) == n",
        },
        # callee for the lemma units below (call sites must have order == 0: a call_pre obligation)
        opts={"callee": True, "sat_level": 1},
    )
)
UNITS.append(
    Unit(
        id="lemma.detrend0_idempotent",
        module=LEM,
        func="lemma_detrend0_idempotent",
        props=["C19"],
        ghosts={"n": ("int", "len(x)")},
        params={"x": ("arr", "real", ("n",))},
        requires=["n >= 1"],
        ensures={"C19.idempotent": "forall(0, n, lambda i: result[1][i] == result[0][i])"},
        opts={"callee": False},
    )
)
UNITS.append(
    Unit(
        id="lemma.detrend0_annihilates_constants",
        module=LEM,
        func="lemma_detrend0_annihilates_constants",
        props=["C19"],
        ghosts={"n": ("int", "len(x)")},
        params={"x": ("arr", "real", ("n",)), "c": "real"},
        requires=["n >= 1", "forall(0, n, lambda i: x[i] == c)"],
        ensures={"C19.constant_is_mapped_to_zero": "forall(0, n, lambda i: result[i] == 0)"},
        opts={"callee": False},
    )
)
UNITS.append(
    Unit(
        id="dsp.polynomial_detrend[empty]",
        module=M,
        func="polynomial_detrend",
        props=["C19"],
        params={"x": ("arr", "real", (0,)), "order": "int"},
        ensures={"never_returns": "False"},
        raises={"ValueError": True},
        opts={"callee": False, "may_not_return": True},
    )
)
UNITS.append(
    Unit(
        id="dsp.polynomial_detrend[negative-order]",
        module=M,
        func="polynomial_detrend",
        props=["C19"],
        ghosts={"n": ("int", "len(x)")},
        params={"x": ("arr", "real", ("n",)), "order": "int"},
        requires=["n >= 1", "order < 0"],
        ensures={"never_returns": "False"},
        raises={"ValueError": True},
        opts={"callee": False, "may_not_return": True},
    )
)
for _p in (1, 2, 3, 4, 5):
    UNITS.append(
        Unit(
            id=f"dsp.polynomial_detrend[order={_p}]",
            module=M,
            func="polynomial_detrend",
            props=["C19"],
            ghosts={"n": ("int", "len(x)")},
            params={"x": ("arr", "real", ("n",)), "order": ("const", _p)},
            requires=[f"n >= {_p + 1}"],
            ensures={
                # orthogonal to every monomial i^m, m <= p (normal equations of the assumed least-squares contract)
                **{f"orthogonal_to_degree_{m}": f"Sum(0, n, lambda i: power(i, {m}) * result[i]) == 0" for m in range(_p + 1)},
                "residual_form": "forall(0, n, lambda i: result[i] == x[i] - POLYVAL[i])",
                "fit_degree": f"POLYFIT_DEG == {_p}",
                "input_not_written": "forall(0, n, lambda i: x[i] == old_x[i])",
            },
            opts={"callee": False, "sat_level": 1},
        )
    )

# ---- crop_data / integral_rms ------------------------------------------------------------------------
UNITS.append(
    Unit(
        id="dsp.crop_data",
        module=M,
        func="crop_data",
        props=["C19"],
        ghosts={"n": ("int", "len(x)")},
        params={"x": ("arr", "real", ("n",)), "y": ("arr", "real", ("n",)), "xmin": "real", "xmax": "real"},
        requires=["n >= 0", "len(y) == n", "xmin <= xmax"],
        ensures={
            "same_length": "len(result[0]) == len(result[1]) and len(result[0]) <= n",
            # the selection is order preserving and consists exactly of the points with xmin <= x <= xmax (inclusive)
            "selected_points_in_band": "forall(0, len(result[0]), lambda k: xmin <= result[0][k] and result[0][k] <= xmax)",
            "selection_is_a_subsequence": "forall(0, len(result[0]), lambda k: 0 <= SEL(k) and SEL(k) < n and result[0][k] == x[SEL(k)] and result[1][k] == y[SEL(k)])",
            "subsequence_order": "forall(0, len(result[0]) - 1, lambda k: SEL(k) < SEL(k+1))",
            "every_in_band_point_selected": "forall(0, n, lambda p: implies(xmin <= x[p] and x[p] <= xmax, 0 <= RANK(p) and RANK(p) < len(result[0]) and SEL(RANK(p)) == p))",
        },
        opts={"callee": False},
    )
)


def install(eng):
    from pyvc.heap import Builtin, ArrV, ModuleV
    from pyvc.values import Sym, Opaque, Unsupported
    from pyvc import values as V
    from pyvc import spec as S
    import z3

    np_ = eng.builtins["__modules__"]["numpy"]

    # np.polyfit / np.polyval: assumed least-squares contract (normal equations)
    def polyfit(eng_, st, t, x, deg=None):
        td, xd = eng_.deref(st, t), eng_.deref(st, x)
        deg = eng_.deref(st, deg)
        if not isinstance(deg, int):
            raise Unsupported("polyfit with symbolic degree")
        n = xd.shape[0]
        pv = eng_.fresh_fn("polyval_of_fit", 1, "real")
        fit = Opaque(f"polyfit#{eng_.counter.get('polyfit', 0)}", {"pv": pv, "deg": deg, "t": td, "x": xd})
        eng_.counter["polyfit"] = eng_.counter.get("polyfit", 0) + 1
        real = eng_.cur_state
        eng_.oblige(real, "call_pre", f"np.polyfit.enough_points@{getattr(eng_, 'cur_line', 0)}", V.cmp(">=", n, deg + 1))
        for m in range(deg + 1):
            # sum_i t_i^m * (x_i - P(t_i)) == 0
            def body(i, m=m):
                ti = td.fn((i,))
                p = Fraction(1)
                for _ in range(m):
                    p = V.mul(p, ti)
                return V.mul(V.to_real(p), V.sub(xd.fn((i,)), Sym(pv(V.int_term(i)), "real")))

            from fractions import Fraction

            sm = S.sum_of_terms(eng_, real, 0, n, body)
            real.assume(V.cmp("==", sm, 0))
        eng_.set_ghost("POLYFIT_DEG", deg)
        eng_.trusted.add("np.polyfit(t, x, deg): coefficients of the least-squares polynomial (normal equations sum_i t_i^m (x_i - P(t_i)) = 0, m <= deg); np.polyval evaluates that polynomial")
        return fit

    def polyval(eng_, st, c, t):
        td = eng_.deref(st, t)
        if not (isinstance(c, Opaque) and "pv" in c.attrs):
            raise Unsupported("polyval of unknown coefficients")
        pv = c.attrs["pv"]
        a = ArrV(td.shape, lambda ix: Sym(pv(V.int_term(ix[0])), "real"), "real")
        eng_.set_ghost("POLYVAL", a)
        return eng_.alloc(st, a)

    np_.attrs["polyfit"] = Builtin("numpy.polyfit", polyfit, True)
    np_.attrs["polyval"] = Builtin("numpy.polyval", polyval, True)

    # ghost names for the selection map of the last boolean-mask indexing (crop_data)
    def sel(eng_, st, k):
        info = eng_.last_compress
        return Sym(info[1](V.int_term(k)), "int")

    def rank(eng_, st, p):
        info = eng_.last_compress
        return Sym(info[2](V.int_term(p)), "int")

    eng.builtins["SEL"] = Builtin("SEL", sel, True)
    eng.builtins["RANK"] = Builtin("RANK", rank, True)


# ---- integral_rms --------------------------------------------------------------------------------


def _crop_returns(eng, st, name, fid):
    """symbolic result of crop_data by contract: the order-preserving inclusive selection"""
    from pyvc.heap import ArrV
    from pyvc.values import Sym
    from pyvc import values as V
    import z3

    x = eng.deref(st, eng.lookup(st, fid, "x"))
    y = eng.deref(st, eng.lookup(st, fid, "y"))
    m = eng.fresh("crop.count", "int")
    sel = eng.fresh_fn("crop.sel", 1, "int")
    rank = eng.fresh_fn("crop.rank", 1, "int")
    eng.last_compress = (m, sel, rank)
    st.assume(V.cmp(">=", m, 0))
    xs = ArrV((m,), lambda ix: x.fn((Sym(sel(V.int_term(ix[0])), "int"),)), "real")
    ys = ArrV((m,), lambda ix: y.fn((Sym(sel(V.int_term(ix[0])), "int"),)), "real")
    return (eng.alloc(st, xs), eng.alloc(st, ys))


_crop_returns._ctx = False
for _u in UNITS:
    if _u.id == "dsp.crop_data":
        _u.returns = _crop_returns
        _u.opts["callee"] = True

        def _crop_call_post(eng, st, fid, res):
            eng.set_ghost("CROP_x", res[0], st)
            eng.set_ghost("CROP_y", res[1], st)
            eng.set_ghost("CROP_xmin", eng.lookup(st, fid, "xmin"), st)
            eng.set_ghost("CROP_xmax", eng.lookup(st, fid, "xmax"), st)
            eng.set_ghost("CROP_srcx", eng.lookup(st, fid, "x"), st)
            eng.set_ghost("CROP_srcy", eng.lookup(st, fid, "y"), st)

        _u.call_post = _crop_call_post


def _rms_post_hook(eng, st, fid, res, entry):
    g = st.tags.setdefault("ghosts", {})
    g["CROPPED"] = "CROP_x" in g
    for k in ("CROP_x", "CROP_y", "CROP_xmin", "CROP_xmax", "CROP_srcx", "CROP_srcy"):
        g.setdefault(k, None)


RMS_ENS = {
    "nonnegative": "result >= 0",
    "zero_when_the_band_misses_the_grid": "True if CROPPED else (result == 0 and (max(FMIN, lo) >= min(FMAX, hi)))",
    "crop_is_the_inclusive_band_clipped_to_the_grid": "(CROP_xmin == max(FMIN, lo) and CROP_xmax == min(FMAX, hi) and CROP_srcx is fourier_freq and CROP_srcy is asd) if CROPPED else True",
    "square_is_trapezoid_over_in_band_points": "implies(len(CROP_x) >= 1, result * result == Sum(0, len(CROP_x) - 1, lambda k: (CROP_y[k]**2 + CROP_y[k+1]**2) / 2 * (CROP_x[k+1] - CROP_x[k]))) if CROPPED else True",
    "no_points_gives_zero": "implies(len(CROP_x) == 0, result == 0) if CROPPED else True",
}

UNITS.append(
    Unit(
        id="dsp.integral_rms[band]",
        module=M,
        func="integral_rms",
        props=["C19"],
        ghosts={"n": ("int", "len(fourier_freq)"), "lo": "real", "hi": "real", "FMIN": "real", "FMAX": "real"},
        params={"fourier_freq": ("arr", "real", ("n",)), "asd": ("arr", "real", ("n",))},
        setup=lambda eng, st, fid, genv: eng.setvar(st, fid, "pass_band", (genv["lo"], genv["hi"])),
        requires=["n >= 1", "len(asd) == n", "lo <= hi", "forall(0, n, lambda i: FMIN <= fourier_freq[i] and fourier_freq[i] <= FMAX)", "exists(0, n, lambda i: fourier_freq[i] == FMIN)", "exists(0, n, lambda i: fourier_freq[i] == FMAX)", "forall(0, n, lambda i: asd[i] >= 0)", "forall(0, n, lambda i: forall(i, n, lambda j: fourier_freq[i] <= fourier_freq[j]))"],
        ensures=RMS_ENS,
        post_hook=_rms_post_hook,
        opts={"callee": False, "sat_level": 1},
    )
)
UNITS.append(
    Unit(
        id="dsp.integral_rms[full]",
        module=M,
        func="integral_rms",
        props=["C19"],
        ghosts={"n": ("int", "len(fourier_freq)"), "FMIN": "real", "FMAX": "real"},
        params={"fourier_freq": ("arr", "real", ("n",)), "asd": ("arr", "real", ("n",)), "pass_band": ("const", None)},
        requires=["n >= 1", "len(asd) == n", "forall(0, n, lambda i: FMIN <= fourier_freq[i] and fourier_freq[i] <= FMAX)", "exists(0, n, lambda i: fourier_freq[i] == FMIN)", "exists(0, n, lambda i: fourier_freq[i] == FMAX)", "forall(0, n, lambda i: asd[i] >= 0)", "forall(0, n, lambda i: forall(i, n, lambda j: fourier_freq[i] <= fourier_freq[j]))"],
        ensures={
            "nonnegative": "result >= 0",
            "full_span": "(CROP_xmin == FMIN and CROP_xmax == FMAX and CROP_srcx is fourier_freq and CROP_srcy is asd) if CROPPED else True",
            "square_is_trapezoid": "implies(len(CROP_x) >= 1, result * result == Sum(0, len(CROP_x) - 1, lambda k: (CROP_y[k]**2 + CROP_y[k+1]**2) / 2 * (CROP_x[k+1] - CROP_x[k]))) if CROPPED else True",
        },
        post_hook=_rms_post_hook,
        opts={"callee": False, "sat_level": 1},
    )
)

_install_dsp = install


def install(eng):  # noqa: F811
    _install_dsp(eng)
    from pyvc.heap import Builtin, ArrV
    from pyvc import values as V
    from pyvc import spec as S

    def cumtrapz(eng_, st, y, x=None, initial=None):
        yd, xd = eng_.deref(st, y), eng_.deref(st, x)
        n = yd.shape[0]
        eng_.trusted.add("scipy.integrate.cumulative_trapezoid(y, x, initial=0)[i] == sum_{k<i} (y[k]+y[k+1])/2*(x[k+1]-x[k])")

        def fn(ix):
            i = ix[0]
            return S.sum_of_terms(eng_, eng_.pst, 0, i, lambda k: V.mul(V.truediv(V.add(yd.fn((k,)), yd.fn((V.add(k, 1),))), 2), V.sub(xd.fn((V.add(k, 1),)), xd.fn((k,)))))

        return eng_.alloc(st, ArrV((n,), fn, "real"))

    eng.builtins["scipy.integrate.cumulative_trapezoid"] = Builtin("scipy.integrate.cumulative_trapezoid", cumtrapz, True)


# ------------------------------------------------------------------------- bounded stand-ins (C19)


def bounded_c19(tier, seed):
    """grid of series/orders/grids/bands: projection properties of the detrend, trapezoid over the
    inclusive in-band grid points (band edges on and off the grid), additivity, nesting, get_rms,
    DataFrame wrapper, Parseval within 5 %"""
    import numpy as np
    import pandas as pd
    from speckit.dsp import polynomial_detrend, integral_rms, df_detrend

    rng = np.random.default_rng(seed)
    fails, n = [], 0

    def trap(f, y, lo, hi):
        m = (f >= lo) & (f <= hi)
        ff, yy = f[m], y[m]
        return float(np.sqrt(np.sum((yy[:-1] ** 2 + yy[1:] ** 2) / 2 * np.diff(ff)))) if len(ff) >= 2 else 0.0

    sizes = [int(rng.integers(8, 300)) for _ in range(6 if tier == "quick" else 40)] + ([1000, 4096, 20000] if tier == "quick" else [1000, 4096, 20000, 100000])
    for N in sizes:
        # (long series / high orders included: the statement is for every series length)
        x = rng.normal(size=N) + rng.normal() * np.arange(N) ** 2 / N
        t = np.arange(N, dtype=float)
        for p in range(0, 6):
            if N < p + 2:
                continue
            n += 1
            r = polynomial_detrend(x, order=p)
            sc = max(1.0, np.max(np.abs(x)))
            for m in range(p + 1):
                if abs(np.sum((t / N) ** m * r)) > 1e-6 * sc * N:
                    fails.append({"label": "C19.orthogonal", "input": {"N": N, "order": p, "degree": m}, "detail": "residual not orthogonal to a polynomial of degree <= order"})
                    break
            if np.max(np.abs(polynomial_detrend(r, order=p) - r)) > 1e-6 * sc:
                fails.append({"label": "C19.idempotent", "input": {"N": N, "order": p}, "detail": "detrending twice changes the result"})
            poly = sum(rng.normal() * (t / N) ** k for k in range(p + 1))
            if np.max(np.abs(polynomial_detrend(poly, order=p))) > 1e-6 * max(1.0, np.max(np.abs(poly))):
                fails.append({"label": "C19.annihilates", "input": {"N": N, "order": p}, "detail": "a polynomial of degree <= order is not mapped to zero"})
        # RMS integration
        nf = int(rng.integers(5, 200))
        f = np.cumsum(rng.uniform(0.01, 1.0, nf))
        asd = rng.uniform(0.0, 3.0, nf)
        i, j, k = sorted(rng.choice(nf, 3, replace=False))
        bands = [(f[i], f[k]), (f[i], f[j]), (f[j], f[k]), (f[i] - 1e-3, f[k] + 1e-3), (0.5 * (f[i] + f[i + 1] if i + 1 < nf else f[i]), f[k]), (-1.0, 1e9), (f[0], f[-1])]
        for lo, hi in bands:
            n += 1
            got, want = integral_rms(f, asd, (lo, hi)), trap(f, asd, lo, hi)
            if abs(got - want) > 1e-9 * max(1.0, want):
                fails.append({"label": "C19.trapezoid_over_inclusive_band", "input": {"nf": nf, "band": [float(lo), float(hi)], "on_grid": bool(lo in f)}, "detail": f"integral_rms={got!r} trapezoid={want!r}"})
        a, b, c = integral_rms(f, asd, (f[i], f[j])), integral_rms(f, asd, (f[j], f[k])), integral_rms(f, asd, (f[i], f[k]))
        n += 1
        if abs(a * a + b * b - c * c) > 1e-9 * max(1.0, c * c):
            fails.append({"label": "C19.additive_in_power", "input": {"nf": nf}, "detail": "power not additive over bands that meet at a grid point"})
        if integral_rms(f, asd, (f[i], f[j])) > integral_rms(f, asd, (f[i], f[k])) + 1e-12:
            fails.append({"label": "C19.nesting", "input": {"nf": nf}, "detail": "band RMS not monotone under nesting"})
    # result method and Parseval
    from speckit import compute_spectrum

    x = rng.normal(size=20000)
    res = compute_spectrum(x, 10.0, Jdes=200)
    n += 2
    if abs(res.get_rms() - integral_rms(res.f, res.asd, None)) > 1e-12:
        fails.append({"label": "C19.get_rms", "input": {}, "detail": "get_rms differs from integral_rms(f, asd)"})
    lo, hi = float(res.f[10]), float(res.f[50])
    if abs(res.get_rms((hi, lo)) - integral_rms(res.f, res.asd, (lo, hi))) > 1e-12:
        fails.append({"label": "C19.get_rms_band", "input": {}, "detail": "get_rms(band) differs from integral_rms over the sorted band"})
    if abs(res.get_rms() / np.std(x) - 1) > 0.05:
        fails.append({"label": "C19.parseval", "input": {}, "detail": f"full-band RMS {res.get_rms():.4f} vs time-domain {np.std(x):.4f}"})
    df = pd.DataFrame({"a": rng.normal(size=50) + np.arange(50), "b": rng.normal(size=50), "s": ["x"] * 50})
    out = df_detrend(df, columns=["a"], order=1)
    n += 1
    if not np.allclose(out["a_detrended"], polynomial_detrend(df["a"].values, 1)) or not out["b"].equals(df["b"]) or "b_detrended" in out or not df.equals(df.copy()):
        fails.append({"label": "C19.df_wrapper", "input": {}, "detail": "df_detrend does not detrend exactly the selected numeric columns"})
    return {"evaluations": n, "bound": "random series (N<300), orders 0..5, random increasing grids (nf<200), 7 bands each incl. edges on grid points", "failures": fails[:5], "n_failures": len(fails)}


BOUNDED = {"C19.grid": bounded_c19}
PROPERTY_INFO = {
    "C19": {
        "bounded": ["C19.grid"],
        "not_decided": ["idempotence / annihilation of polynomials for order >= 1 rest on uniqueness of the least-squares solution (mathematics, M1): bounded only", "Parseval within a few percent: statistical, bounded only"],
        "trusted": ["np.polyfit/np.polyval least-squares contract", "scipy.integrate.cumulative_trapezoid contract"],
    }
}
