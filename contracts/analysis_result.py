"""Contracts for SpectrumResult.__getattr__ (the lazily evaluated attribute table):
C06, C07, C09, C10, C11, C13, C14, C20.

Every attribute is proved at one arbitrary bin ``b`` against its documented closed
form F_<name> (taken from the property statements / class documentation, not from the
code).  ``self.<other>`` inside a branch is used by contract (its F), never by body.

Representation invariant of a result (``wf``; established by compute()/
compute_single_bin(), see contracts/analysis_compute.py):
  fs > 0, S2 > 0, S12 >= 0, XX >= 0, YY >= 0, |XY|^2 <= XX*YY (Cauchy-Schwarz, L6),
  M2 >= 0, navg >= 1 (an integer), and for auto results YY == XX, XY == XX.
"""
from fractions import Fraction

from pyvc.unitdef import Unit

M = "speckit/analysis.py"
F = "SpectrumResult.__getattr__"

# name -> (mode, spec text at bin b | None, needs_coh_positive)
#   mode: 'both' | 'auto' (None for cross results) | 'cross' (None for auto results)
ATTR = {
    # ---- base densities (C06) ---------------------------------------------------------
    "Gxx": ("both", "2*XX/(fs*S2)"),
    "Gyy": ("both", "2*YY/(fs*S2)"),  # for auto results YY == XX (wf)
    "Gxy": ("both", "2*XY/(fs*S2)"),  # for auto results XY == XX (wf)
    "ENBW": ("both", "ite(S12 != 0, fs*S2/S12, 0)"),
    "psd": ("auto", "Gxx"),
    "G": ("auto", "Gxx"),
    "asd": ("auto", "sqrt(Gxx)"),
    "ps": ("auto", "Gxx*ENBW"),
    # ---- cross quantities (C07, C09, C20) ------------------------------------------------
    "csd": ("cross", "Gxy"),
    "Gyx": ("cross", "conj(Gxy)"),
    "Hxy": ("cross", "ite(XX != 0, conj(XY)/XX, complex(0, 0))"),
    "Hyx": ("cross", "conj(Hxy)"),
    "coh": ("cross", "ite(XX != 0 and YY != 0, abs2(XY)/(XX*YY), 0)"),
    "ccoh": ("cross", "ite(XX != 0 and YY != 0, XY/sqrt(XX*YY), complex(0, 0))"),
    "cs": ("cross", "Gxy*ENBW"),
    "tf": ("cross", "Hxy"),
    "cf": ("cross", "sqrt(abs2(Hxy))"),
    "cf_db": ("cross", "20*log10(cf)"),
    "cf_rad": ("cross", "angle(Hxy)"),
    "cf_deg": ("cross", "180/pi*cf_rad"),
    "cf_rad_unwrapped": ("cross", "UNWRAP"),
    "cf_deg_unwrapped": ("cross", "180/pi*cf_rad_unwrapped"),
    # ---- conditioned spectra (C09, C15) ----------------------------------------------------
    "GyyCx": ("cross", "coh*Gyy"),
    "GyyRx": ("cross", "(1 - coh)*Gyy"),
    "GyySx": ("cross", "Gyy*(1 - coh)"),  # the statement: optimal-subtraction residual
    # ---- exposed statistics, empirical errors (C11) -------------------------------------------
    "XX_mean": ("both", "XX"),
    "YY_mean": ("both", "YY"),
    "XY_M2": ("both", "M2"),
    "XY_emp_var": ("both", "M2/navg"),
    "XY_emp_dev": ("both", "sqrt(M2/navg)"),
    "Gxx_emp_dev": ("auto", "2/(fs*S2)*sqrt(M2/navg)"),
    "Gxy_emp_dev": ("cross", "2/(fs*S2)*sqrt(M2/navg)"),
    # ---- Bendat-Piersol deviations and normalised errors (C10) -----------------------------------
    "Gxx_dev": ("both", "Gxx/sqrt(navg)"),
    "Gyy_dev": ("both", "Gyy/sqrt(navg)"),
    "Gxy_dev": ("cross", "sqrt(abs2(Gxy))/sqrt(coh*navg)", True),
    "Hxy_dev": ("cross", "sqrt(abs2(Hxy))*sqrt(1 - coh)/sqrt(2*coh*navg)", True),
    "coh_dev": ("cross", "sqrt(2*coh)*(1 - coh)/sqrt(navg)", True),
    "Gxx_error": ("both", "1/sqrt(navg)"),
    "Gyy_error": ("both", "1/sqrt(navg)"),
    "Gxy_error": ("cross", "1/sqrt(coh*navg)", True),
    "Hxy_mag_error": ("cross", "sqrt(1 - coh)/sqrt(2*coh*navg)", True),
    "Hxy_rad_error": ("cross", "arcsin(sqrt(1 - coh))/sqrt(2*coh*navg)", True),
    "Hxy_deg_error": ("cross", "180/pi*Hxy_rad_error", True),
    "coh_error": ("cross", "sqrt(2)*(1 - coh)/(sqrt(coh)*sqrt(navg))", True),
}

DATA_KEYS = ["f", "r", "b", "L", "K", "navg", "O", "XX", "YY", "XY", "S12", "S2", "M2", "compute_t", "i"]

# extra relations demanded by the property statements (checked on the code's value)
EXTRA = {
    "coh": {"C09.coherence_in_unit_interval": "0 <= result[b] and result[b] <= 1", "C09.one_segment_gives_unit_coherence": "implies(navg == 1 and XX != 0 and YY != 0, result[b] == 1)"},
    "Gxy": {"C09.cross_density_bounded": "abs2(result[b]) <= Gxx*Gyy"},
    "GyyRx": {"C09.coherent_plus_residual_is_output": "result[b] + GyyCx == Gyy"},
    "ps": {"C06.power_is_density_times_enbw": "result[b] == 2*XX/S12 or S12 == 0"},
    "ENBW": {"C06.enbw_definition": "implies(S12 != 0, result[b] * S12 == fs * S2)"},
    "Gxx_dev": {"C10.dev_is_estimate_times_error": "result[b] == Gxx * Gxx_error"},
    "Gyy_dev": {"C10.dev_is_estimate_times_error": "result[b] == Gyy * Gyy_error"},
    "Gxy_dev": {"C10.dev_is_estimate_times_error": "result[b] == sqrt(abs2(Gxy)) * Gxy_error"},
    "Hxy_dev": {"C10.dev_is_estimate_times_error": "result[b] == sqrt(abs2(Hxy)) * Hxy_mag_error"},
    "coh_dev": {"C10.dev_is_estimate_times_error": "result[b] == coh * coh_error"},
    "Hxy_rad_error": {"C10.phase_error_at_least_magnitude_error": "Hxy_mag_error <= result[b]", "C10.phase_error_at_most_half_pi_magnitude_error": "result[b] <= pi/2 * Hxy_mag_error", "C10.equal_at_unit_coherence": "implies(coh == 1, result[b] == Hxy_mag_error)"},
    "Hxy_deg_error": {"C10.degree_is_radian_times_180_over_pi": "result[b] == 180/pi * Hxy_rad_error"},
    "cf_deg": {"C20.degree_radian": "result[b] == 180/pi * cf_rad"},
    "asd": {"C20.asd_squared_is_psd": "result[b]*result[b] == Gxx"},
    "ccoh": {"C20.complex_coherence_modulus": "abs2(result[b]) == coh"},
    "XY_emp_var": {"C11.nonnegative": "result[b] >= 0", "C11.zero_for_one_segment": "implies(M2 == 0, result[b] == 0)"},
}

PROPS_OF = {
    "Gxx": ["C06", "C20"], "Gyy": ["C06", "C09", "C20"], "Gxy": ["C06", "C09", "C20"], "ENBW": ["C06", "C20"], "psd": ["C06", "C20"], "G": ["C20"], "asd": ["C20"], "ps": ["C06", "C20"],
    "csd": ["C20"], "Gyx": ["C20", "C09"], "Hxy": ["C06", "C07", "C20"], "Hyx": ["C20"], "coh": ["C06", "C09", "C20"], "ccoh": ["C20", "C09"], "cs": ["C20"], "tf": ["C07", "C20"], "cf": ["C20"], "cf_db": ["C20"],
    "cf_rad": ["C20"], "cf_deg": ["C20"], "cf_rad_unwrapped": ["C20"], "cf_deg_unwrapped": ["C20"], "GyyCx": ["C09"], "GyyRx": ["C09"], "GyySx": ["C09", "C15"],
    "XX_mean": ["C11", "C20"], "YY_mean": ["C11", "C20"], "XY_M2": ["C11", "C20"], "XY_emp_var": ["C11"], "XY_emp_dev": ["C11"], "Gxx_emp_dev": ["C11"], "Gxy_emp_dev": ["C11"],
}
for _n in ATTR:
    if _n.endswith(("_dev", "_error")) and not _n.endswith("emp_dev"):
        PROPS_OF[_n] = ["C10"]
ALWAYS = ["C13", "C14"]  # safety (finite results) and cache/frame obligations ride on every unit


# ------------------------------------------------------------------------- symbolic self


def build_self(eng, st, fid, genv, iscsd, name, need_coh_pos):
    from pyvc import values as V
    from pyvc.heap import DictV, ObjV, ArrV, Ref
    from pyvc.values import Sym, Cx, Opaque

    nf = genv["nf"]
    b = genv["b"]
    st.assume(V.cmp(">=", nf, 1))
    st.assume(V.b_and(V.cmp("<=", 0, b), V.cmp("<", b, nf)))
    fs = eng.fresh("fs", "real")
    st.assume(V.cmp(">", fs, 0))
    data = {}
    arrs = {}
    for k in DATA_KEYS:
        dt = "real"
        if k in ("L", "K", "navg", "i"):
            dt = "int"
        if k == "XY":
            dt = "cx"
        a = eng.fresh_array(k, (nf,), dt)
        arrs[k] = a
        data[k] = eng.alloc(st, a)
    XX, YY, XY = arrs["XX"].at(b), arrs["YY"].at(b), arrs["XY"].at(b)
    S2, S12, M2, navg = arrs["S2"].at(b), arrs["S12"].at(b), arrs["M2"].at(b), arrs["navg"].at(b)
    # wf at bin b
    st.assume(V.cmp(">", S2, 0))
    st.assume(V.cmp(">=", S12, 0))
    st.assume(V.cmp(">=", XX, 0))
    st.assume(V.cmp(">=", YY, 0))
    st.assume(V.cmp(">=", M2, 0))
    st.assume(V.cmp(">=", navg, 1))
    absxy2 = V.add(V.mul(XY.re, XY.re), V.mul(XY.im, XY.im))
    st.assume(V.cmp("<=", absxy2, V.mul(XX, YY)))
    st.assume(V.b_implies(V.cmp("==", navg, 1), V.b_and(V.cmp("==", absxy2, V.mul(XX, YY)), V.cmp("==", M2, 0))))
    if not iscsd:
        st.assume(V.cmp("==", YY, XX))
        st.assume(V.b_and(V.cmp("==", XY.re, XX), V.cmp("==", XY.im, 0)))
    if need_coh_pos:
        # the property grants coherence in (0, 1]: error bars are only claimed there
        st.assume(V.b_and(V.cmp(">", XX, 0), V.cmp(">", YY, 0), V.cmp(">", absxy2, 0)))
    genv.update(XX=XX, YY=YY, XY=XY, S2=S2, S12=S12, M2=M2, navg=navg, fs=fs)
    datav = eng.alloc(st, DictV(data))
    cache = eng.alloc(st, DictV({}))
    st.tags["cache_loc"] = cache.loc
    st.tags["data_loc"] = datav.loc
    st.tags["data_bufs"] = frozenset().union(*[a.bufs for a in arrs.values()])
    obj = ObjV("SpectrumResult", {"_data": datav, "_cache": cache, "iscsd": bool(iscsd), "fs": fs, "_config": Opaque("config"), "nf": nf})
    ref = eng.alloc(st, obj)
    st.tags["self_loc"] = ref.loc
    eng.setvar(st, fid, "self", ref)
    eng.setvar(st, fid, "name", name)
    # spec-level names of the other attributes at bin b (their contracts)
    for other in ATTR:
        genv[other] = _LazySpec(other)
    st.tags["iscsd"] = bool(iscsd)
    st.tags["arrs"] = arrs


class _LazySpec:
    def __init__(self, name):
        self.name = name


def spec_value(eng, st, name, idx, depth=0):
    """F_<name> at bin idx (value or None), by the table above"""
    from pyvc import values as V
    from pyvc.contract import parse_expr
    from pyvc.values import Sym, Cx

    if depth > 8:
        raise RuntimeError("attribute spec recursion")
    ent = ATTR[name]
    mode, text = ent[0], ent[1]
    iscsd = st.tags["iscsd"]
    if (mode == "auto" and iscsd) or (mode == "cross" and not iscsd):
        return None
    arrs = st.tags["arrs"]
    if text == "UNWRAP":
        f = eng.uf("unwrap_cf_rad", __import__("z3").IntSort(), __import__("z3").RealSort())
        return Sym(f(V.int_term(idx)), "real")
    env = {k: arrs[k].at(idx) for k in ("XX", "YY", "XY", "S2", "S12", "M2", "navg")}
    env["fs"] = eng.deref(st, st.heap[st.tags["self_loc"]].fields["fs"])
    import ast as _ast

    node = parse_expr(text)
    names = {n.id for n in _ast.walk(node) if isinstance(n, _ast.Name)}
    for other in names & set(ATTR):
        env[other] = spec_value(eng, st, other, idx, depth + 1)
    fid = eng.new_frame(st, parent=None, module=None)
    for k, v in env.items():
        eng.setvar(st, fid, k, v)
    st.ghost += 1
    try:
        rs = eng.eval_fork(node, st, fid)
    finally:
        st.ghost -= 1
    return eng.deref(st, rs[0][1])


def spec_array(eng, st, name):
    from pyvc.heap import ArrV

    iscsd = st.tags["iscsd"]
    mode = ATTR[name][0]
    if (mode == "auto" and iscsd) or (mode == "cross" and not iscsd):
        return None
    nf = st.heap[st.tags["self_loc"]].fields["nf"]
    probe = spec_value(eng, st, name, 0)
    from pyvc.values import Cx

    a = ArrV((nf,), lambda ix: spec_value(eng, eng.pst, name, ix[0]), "cx" if isinstance(probe, Cx) else "real")
    if ATTR[name][1] == "UNWRAP":
        a.is_unwrap = True
    # the array handed out for another attribute is the cached object itself: it must never be written
    real = eng.cur_state
    real.tags["attr_bufs"] = frozenset(real.tags.get("attr_bufs", frozenset())) | a.bufs
    return eng.alloc(st, a)


def install(eng):
    from pyvc.heap import Ref, ObjV, DictV, ArrV
    from pyvc import values as V
    from pyvc.values import Unsupported

    prev_getattr = getattr(eng, "getattr_hook", None)

    def getattr_hook(eng_, st, base, attr):
        if isinstance(base, Ref) and isinstance(st.heap.get(base.loc), ObjV) and st.heap[base.loc].cls == "SpectrumResult":
            o = st.heap[base.loc]
            if attr in o.fields:
                return None
            if attr in ATTR:
                eng_.attr_deps.setdefault(st.tags.get("attr_name"), set()).add(attr)
                return [(st, spec_array(eng_, st, attr))]
            data = st.heap[o.fields["_data"].loc]
            if attr in data.d:
                return [(st, data.d[attr])]
            raise Unsupported(f"SpectrumResult attribute {attr!r} has no contract")
        return prev_getattr(eng_, st, base, attr) if prev_getattr else None

    eng.getattr_hook = getattr_hook
    eng.attr_deps = {}

    prev_contains = getattr(eng, "dict_contains_hook", None)

    def contains_hook(eng_, st, container, c, x):
        if isinstance(container, Ref) and container.loc == st.tags.get("cache_loc"):
            # the cache may or may not hold the name: both cases are explored
            if "incache" not in st.tags:
                st.tags["incache"] = eng_.fresh("incache", "bool")
            return st.tags["incache"]
        return prev_contains(eng_, st, container, c, x) if prev_contains else None

    eng.dict_contains_hook = contains_hook

    prev_get = getattr(eng, "dict_get_hook", None)

    def get_hook(eng_, st, base, obj, idx, default=None, is_get=False):
        if isinstance(base, Ref) and base.loc == st.tags.get("cache_loc") and isinstance(idx, str):
            # class invariant Inv: _cache[k] == F_k(_data, fs, iscsd)
            if idx in ATTR:
                return spec_array(eng_, st, idx)
            data = st.heap[st.tags["data_loc"]]
            if idx in data.d:
                return data.d[idx]
        return prev_get(eng_, st, base, obj, idx, default=default, is_get=is_get) if prev_get else None

    eng.dict_get_hook = get_hook

    prev_write = getattr(eng, "dict_write_hook", None)

    def write_hook(eng_, st, base, key, v):
        if "data_loc" in st.tags and base.loc == st.tags["data_loc"]:
            eng_.oblige(st, "frame", f"_data_not_written[{key}]", False)
        if prev_write:
            prev_write(eng_, st, base, key, v)

    eng.dict_write_hook = write_hook

    prev_fw = getattr(eng, "frame_checker", None)

    def frame_checker(eng_, st, ref, label):
        bufs = st.tags.get("data_bufs")
        if bufs is not None:
            obj = st.heap[ref.loc]
            if isinstance(obj, ArrV) and (obj.bufs & bufs):
                eng_.oblige(st, "frame", f"result_arrays_not_written:{label}", False)
            abufs = st.tags.get("attr_bufs", frozenset())
            if isinstance(obj, ArrV) and (obj.bufs & abufs):
                eng_.oblige(st, "frame", f"C14.cached_attribute_arrays_not_written:{label}", False)
        if prev_fw:
            prev_fw(eng_, st, ref, label)

    eng.frame_checker = frame_checker

    # control.mag2db(x) = 20*log10(x) (assumed contract); -inf at 0 is the decibel of zero
    from pyvc import spec as S
    from pyvc.heap import Builtin

    def mag2db(eng_, st, x):
        xd = eng_.deref(st, x)

        def db(e):
            cs = eng_.pst
            cs.ghost += 1  # 20*log10(0) = -inf is the decibel of zero: no domain obligation
            try:
                return V.mul(20, S.log_of(eng_, cs, e, "log10"))
            finally:
                cs.ghost -= 1

        r = eng_.np_map(st, db, xd)
        eng_.trusted.add("control.mag2db(x) == 20*log10(x)")
        return eng_.alloc(st, r)

    eng.builtins["control.mag2db"] = Builtin("control.mag2db", mag2db, True)

    # np.unwrap on the cf_rad spec array: the abstract unwrapped phase
    np_ = eng.builtins["__modules__"]["numpy"]
    old_unwrap = np_.attrs["unwrap"]

    def unwrap(eng_, st, p):
        import z3

        pd = eng_.deref(st, p)
        f = eng_.uf("unwrap_cf_rad", z3.IntSort(), z3.RealSort())
        from pyvc.values import Sym

        eng_.trusted.add("np.unwrap: uninterpreted function of the wrapped phase array")
        return eng_.alloc(st, ArrV(pd.shape, lambda ix: Sym(f(V.int_term(ix[0])), "real"), "real"))

    np_.attrs["unwrap"] = Builtin("numpy.unwrap", unwrap, True)
    eng.builtins["numpy.unwrap"] = np_.attrs["unwrap"]


# ------------------------------------------------------------------------- units


def make_unit(name, iscsd):
    ent = ATTR[name]
    mode, text = ent[0], ent[1]
    need_coh = len(ent) > 2 and ent[2] and iscsd
    applies = not ((mode == "auto" and iscsd) or (mode == "cross" and not iscsd))
    props = sorted(set(PROPS_OF.get(name, ["C20"]) + ALWAYS + ["C20"] + (["C09"] if iscsd else [])))
    ens = {}
    if not applies:
        ens["C20.not_applicable_is_None"] = "result is None"
    elif text == "UNWRAP":
        ens["value"] = "result[b] == SPEC[b]"
    else:
        ens["value"] = "result[b] == SPEC[b]"
        if iscsd or mode != "cross":
            for lab, t in EXTRA.get(name, {}).items():
                ens[lab] = t

    def setup(eng, st, fid, genv, name=name, iscsd=iscsd, need_coh=need_coh):
        build_self(eng, st, fid, genv, iscsd, name, need_coh)
        st.tags["attr_name"] = name
        # resolve the lazy spec names of other attributes at bin b
        for other in list(genv):
            if isinstance(genv[other], _LazySpec):
                genv[other] = _Deferred(other)

    def post_hook(eng, st, fid, res, entry, name=name, applies=applies, ens=ens):
        from pyvc.heap import ArrV, Ref

        genv = eng.ghost_env
        import ast as _ast

        used = set()
        for t in ens.values():
            used |= {n.id for n in _ast.walk(_ast.parse(t, mode="eval")) if isinstance(n, _ast.Name)}
        for other in list(genv):
            if isinstance(genv[other], _Deferred):
                genv[other] = spec_value(eng, st, other, genv["b"]) if other in used else None
        if applies:
            genv["SPEC"] = eng.deref(st, spec_array(eng, st, name))
            r = eng.deref(st, res)
            if isinstance(r, ArrV):
                # evaluate the element in non-ghost mode: fires the lazily generated safety
                # obligations (division guards, sqrt/arcsin domains) of C13
                r.fn((genv["b"],))
                eng.oblige(st, "post", "C20.shape", eng.truthy(st, __import__("pyvc.values", fromlist=["cmp"]).cmp("==", r.shape[0], st.heap[st.tags["self_loc"]].fields["nf"])))
        # C14: the computed value was stored in the cache under this name and nothing else was written
        cache = st.heap[st.tags["cache_loc"]]
        extra_keys = [k for k in cache.d if k != name]
        eng.oblige(st, "frame", "C14.cache_only_this_name", len(extra_keys) == 0)

    return Unit(
        id=f"analysis.SpectrumResult.__getattr__[{name},{'cross' if iscsd else 'auto'}]",
        module=M,
        func=F,
        props=props,
        ghosts={"nf": "int", "b": "int"},
        params={},
        setup=setup,
        ensures=ens,
        post_hook=post_hook,
        opts={"callee": False},
    )


class _Deferred:
    def __init__(self, name):
        self.name = name


UNITS = []
for _name in ATTR:
    for _iscsd in (False, True):
        UNITS.append(make_unit(_name, _iscsd))


def _unknown_setup(eng, st, fid, genv):
    build_self(eng, st, fid, genv, True, "no_such_attribute_xyz", False)
    st.tags["attr_name"] = "no_such_attribute_xyz"
    from pyvc import values as V

    st.assume(V.b_not(st.tags.setdefault("incache", eng.fresh("incache", "bool"))))


UNITS.append(
    Unit(
        id="analysis.SpectrumResult.__getattr__[unknown-name]",
        module=M,
        func=F,
        props=["C20"],
        ghosts={"nf": "int", "b": "int"},
        setup=_unknown_setup,
        ensures={"C20.unknown_name_never_returns": "False"},
        raises={"AttributeError": True},
        opts={"callee": False, "may_not_return": True},
    )
)


# ------------------------------------------------------------------------- run-time reading
# (cross-check of the encoding, replay of counter-models; never counted as proof)


def _np_env():
    import numpy as np

    return dict(
        ite=lambda c, a, b: np.where(c, a, b),
        conj=np.conj,
        abs2=lambda z: np.real(z) ** 2 + np.imag(z) ** 2,
        sqrt=lambda x: np.sqrt(np.maximum(x, 0) if not np.iscomplexobj(x) else x),
        angle=np.angle,
        log10=lambda x: np.log10(np.where(np.asarray(x) > 0, x, 1e-300)),
        arcsin=lambda x: np.arcsin(np.clip(x, -1, 1)),
        complex=lambda a, b: np.asarray(a) + 1j * np.asarray(b),
        pi=np.pi,
    )


def concrete_spec(name, d, fs, iscsd, memo=None):
    """F_<name> as an array (or None), evaluated from the table with NumPy"""
    import ast as _ast
    import numpy as np

    memo = {} if memo is None else memo
    if name in memo:
        return memo[name]
    mode, text = ATTR[name][0], ATTR[name][1]
    if (mode == "auto" and iscsd) or (mode == "cross" and not iscsd):
        memo[name] = None
        return None
    if text == "UNWRAP":
        v = np.unwrap(concrete_spec("cf_rad", d, fs, iscsd, memo))
        memo[name] = v
        return v
    env = _np_env()
    env.update(XX=d["XX"], YY=d["YY"] if iscsd else d["XX"], XY=d["XY"] if iscsd else d["XX"].astype(complex), S2=d["S2"], S12=d["S12"], M2=d["M2"], navg=d["navg"].astype(float), fs=fs)
    expr = text.replace(" and ", " & ")
    names = {n.id for n in _ast.walk(_ast.parse(text, mode="eval")) if isinstance(n, _ast.Name)}
    for other in names & set(ATTR):
        env[other] = concrete_spec(other, d, fs, iscsd, memo)
    with np.errstate(all="ignore"):
        v = eval(expr.replace("XX != 0 & YY != 0", "(XX != 0) & (YY != 0)"), env)
    v = np.asarray(v)
    if name in ("Gxy", "Gyy") and not iscsd:
        v = np.real(v)
    memo[name] = v
    return v


def _rt_sample(name, iscsd, need_coh):
    def sample(rng, i):
        import numpy as np

        nf = int(rng.integers(1, 5))
        XX = rng.uniform(0.1, 5.0, nf)
        YY = rng.uniform(0.1, 5.0, nf)
        rho = rng.uniform(0.05 if need_coh else 0.0, 1.0, nf)
        if i % 5 == 0:
            rho[:] = 1.0
        ph = rng.uniform(-np.pi, np.pi, nf)
        XY = rho * np.sqrt(XX * YY) * np.exp(1j * ph) * 0.999999
        navg = rng.integers(1, 50, nf)
        if i % 4 == 0:
            navg[0] = 1
            XY[0] = np.sqrt(XX[0] * YY[0]) * np.exp(1j * ph[0])
        one = navg == 1  # wf: a single segment has |XY|^2 == XX*YY and no scatter
        XY = np.where(one, np.sqrt(XX * YY) * np.exp(1j * ph), XY)
        M2 = rng.uniform(0.0, 3.0, nf) * (navg > 1)
        if not iscsd:
            YY = XX.copy()
            XY = XX.astype(complex)
        d = dict(f=np.cumsum(rng.uniform(0.1, 1.0, nf)), XX=XX, YY=YY, XY=XY, S2=rng.uniform(0.5, 50, nf), S12=rng.uniform(1.0, 400, nf), M2=M2, navg=navg.astype(np.int64), L=np.full(nf, 16), K=navg.astype(np.int64))
        return dict(data=d, fs=float(rng.uniform(0.1, 100)), b=int(rng.integers(0, nf)))

    return sample


def _rt_call(name, iscsd):
    def call(args):
        from speckit.analysis import SpectrumResult

        res = SpectrumResult(dict(args["data"]), {}, iscsd, args["fs"])
        return getattr(res, name)

    return call


def _rt_env(name, iscsd):
    def env(args, result, ns):
        import numpy as np

        d, fs, b = args["data"], args["fs"], args["b"]
        memo = {}
        out = {"nf": len(d["f"]), "b": b, "fs": fs}
        for k in ("XX", "YY", "XY", "S2", "S12", "M2", "navg"):
            out[k] = d[k][b]
        if not iscsd:
            out["YY"] = d["XX"][b]
            out["XY"] = complex(d["XX"][b])
        out["SPEC"] = concrete_spec(name, d, fs, iscsd, memo)
        for other in ATTR:
            try:
                v = concrete_spec(other, d, fs, iscsd, memo)
                out[other] = None if v is None else v[b]
            except Exception:
                out[other] = None
        return out

    return env


def _parse_fn(s):
    """z3 function interpretation string '[0 -> 1, else -> 2]' -> (dict, else)"""
    import re
    from fractions import Fraction

    def num(t):
        t = t.strip().replace("?", "")
        try:
            return float(Fraction(t.replace(" ", "")))
        except Exception:
            try:
                return float(t)
            except Exception:
                return None

    s = s.strip()
    if not s.startswith("["):
        return {}, num(s)
    body = s[1:-1]
    ents, els = {}, None
    for part in body.split(","):
        if "->" not in part:
            continue
        k, v = part.split("->")
        if k.strip() == "else":
            els = num(v)
        else:
            kk = num(k)
            if kk is not None:
                ents[int(kk)] = num(v)
    return ents, els


def _rt_from_model(name, iscsd):
    def from_model(model, rng):
        import numpy as np

        def getf(prefix):
            for k, v in model.items():
                if k.startswith(prefix + "!"):
                    return _parse_fn(v)
            return {}, None

        def getc(prefix, default):
            for k, v in model.items():
                if k.startswith(prefix + "!"):
                    e, x = _parse_fn(v)
                    return x if x is not None else default
            return default

        b = int(getc("b", 0) or 0)
        nf = max(int(getc("nf", b + 1) or (b + 1)), b + 1)
        nf = min(nf, b + 3)

        def arr(prefix, default):
            ents, els = getf(prefix)
            a = np.full(nf, els if els is not None else default, dtype=float)
            for k, v in ents.items():
                if 0 <= k < nf and v is not None:
                    a[k] = v
            return a

        XX, YY, S2, S12, M2 = arr("XX", 1.0), arr("YY", 1.0), arr("S2", 1.0), arr("S12", 1.0), arr("M2", 0.0)
        XY = arr("XY.re", 0.0) + 1j * arr("XY.im", 0.0)
        navg = np.maximum(arr("navg", 2.0), 1).astype(np.int64)
        fs = float(getc("fs", 1.0) or 1.0)
        if not iscsd:
            YY, XY = XX.copy(), XX.astype(complex)
        d = dict(f=np.arange(1, nf + 1, dtype=float), XX=XX, YY=YY, XY=XY, S2=S2, S12=S12, M2=M2, navg=navg, L=np.full(nf, 16), K=navg)
        return [dict(data=d, fs=fs, b=b)]

    return from_model


for _u in UNITS:
    if "[" in _u.id and "unknown" not in _u.id:
        _nm, _md = _u.id.split("[")[1].rstrip("]").split(",")
        _isc = _md == "cross"
        _need = len(ATTR[_nm]) > 2 and ATTR[_nm][2] and _isc
        _u.runtime = dict(sample=_rt_sample(_nm, _isc, _need), call=_rt_call(_nm, _isc), env=_rt_env(_nm, _isc), from_model=_rt_from_model(_nm, _isc), n_quick=6, n_thorough=60, n_search=200, skip_ensures=("C20.shape",), scale=lambda args, result: 10.0)  # sqrt(|1-coh|) at coh==1 amplifies rounding to ~1e-8



def bounded_access_order(tier, seed):
    """C14/C09/C20 stand-in (bounded): every lazily computed attribute has the same value whatever the
    order of first access (cached arrays are never modified by later accesses)"""
    import numpy as np
    from speckit import compute_spectrum

    rng = np.random.default_rng(seed)
    N = 3000
    x = rng.normal(size=N)
    y = 0.6 * np.roll(x, 2) + rng.normal(size=N)
    names = list(ATTR)
    fails, n = [], 0
    for data, tag in (([x, y], "cross"), (x, "auto")):
        ref = None
        for trial in range(3 if tier == "quick" else 12):
            res = compute_spectrum(data, 10.0, olap=0.5, Jdes=20, Kdes=10, scheduler="ltf", win="hann")
            order = list(rng.permutation(names)) if trial else list(names)
            for nm in order:
                getattr(res, nm)
            if trial == 1:
                res.to_dataframe()
            vals = {nm: (None if getattr(res, nm) is None else np.array(getattr(res, nm), copy=True)) for nm in names}
            n += 1
            if ref is None:
                ref = vals
                continue
            for nm in names:
                a, b = ref[nm], vals[nm]
                if (a is None) != (b is None) or (a is not None and not np.array_equal(a, b, equal_nan=True)):
                    fails.append({"label": "C14.access_order", "input": {"mode": tag, "attribute": nm, "order_prefix": [str(o) for o in order[:6]]}, "detail": "attribute value depends on the order of first access"})
                    break
    return {"evaluations": n, "bound": "auto and cross result, 3 (12) random access orders of all 45 attributes", "failures": fails[:5], "n_failures": len(fails)}


BOUNDED = {"C14.access_order": bounded_access_order}
PROPERTY_INFO = {"C09": {"bounded": ["C14.access_order"]}, "C14": {"bounded": ["C14.access_order"]}, "C20": {"bounded": ["C14.access_order"]}}


# ---- copy / pickle: __getattr__ on an instance whose __dict__ is still empty (C20) ---------------------
# copy.copy / copy.deepcopy / pickle create the instance without __init__ and then look up
# __setstate__ / __deepcopy__ / __reduce_ex__ on it (assumed protocol contract, CPython 3.12).  Instance
# attribute lookup that misses calls __getattr__, which reads self._cache - itself missing - and so
# re-enters __getattr__('_cache') in the same state: no decreasing measure.


def _bare_setup(name):
    def setup(eng, st, fid, genv):
        from pyvc.heap import ObjV

        ref = eng.alloc(st, ObjV("SpectrumResult", {}))
        st.tags["self_loc"] = ref.loc
        st.tags["bare_instance"] = True
        st.tags["attr_name"] = name
        eng.setvar(st, fid, "self", ref)
        eng.setvar(st, fid, "name", name)

    return setup


for _nm in ("_cache", "_data", "__setstate__", "__deepcopy__"):
    UNITS.append(
        Unit(
            id=f"analysis.SpectrumResult.__getattr__[bare-instance,{_nm}]",
            module=M,
            func=F,
            props=["C20"],
            setup=_bare_setup(_nm),
            ensures={"C20.lookup_on_bare_instance_raises_AttributeError": "False"},
            raises={"AttributeError": True},
            opts={"callee": False, "may_not_return": True},
        )
    )

_install_ar = install


def install(eng):  # noqa: F811
    _install_ar(eng)
    from pyvc.heap import Ref, ObjV, DictV

    prev = eng.getattr_hook

    def getattr_hook(eng_, st, base, attr):
        if isinstance(base, Ref) and isinstance(st.heap.get(base.loc), ObjV) and st.tags.get("bare_instance") and base.loc == st.tags.get("self_loc"):
            o = st.heap[base.loc]
            if attr not in o.fields:
                # Python: a missing instance attribute calls __getattr__(attr); inside __getattr__ that is a
                # recursive self-call in an unchanged state
                eng_.oblige(st, "variant", f"C20.recursive_getattr_terminates[{attr}]", False)
                return [(st, eng_.alloc(st, DictV({})))]
        return prev(eng_, st, base, attr)

    eng.getattr_hook = getattr_hook


def bounded_exports(tier, seed):
    """C20 stand-in (bounded): get_measurement (tabulated / linear / clamped), to_dataframe for full, single-bin and
    uniform-K results, copy / deepcopy / pickle round trips"""
    import copy
    import pickle
    import numpy as np
    from speckit import SpectrumAnalyzer

    rng = np.random.default_rng(seed)
    fails, n = [], 0
    N = 1200
    x = rng.normal(size=N)
    y = 0.5 * x + rng.normal(size=N)
    results = {}
    for tag, data in (("auto", x), ("cross", [x, y])):
        an = SpectrumAnalyzer(data, 10.0, olap=0.5, Jdes=15, Kdes=8, scheduler="ltf", win="hann")
        results[f"{tag}/full"] = an.compute()
        results[f"{tag}/single-bin"] = an.compute_single_bin(1.0, L=200)
        results[f"{tag}/uniform-K"] = SpectrumAnalyzer(data, 10.0, olap=0.5, Jdes=5, Kdes=2, Lmin=N, scheduler="ltf", win="hann").compute()
    for tag, res in results.items():
        cross = tag.startswith("cross")
        which = "Gxy" if cross else "asd"
        v = np.asarray(getattr(res, which))
        n += 1
        ok = True
        for j in range(len(res.f)):
            if abs(res.get_measurement(float(res.f[j]), which) - v[j]) > 1e-12 * max(1, abs(v[j])):
                ok = False
        if len(res.f) >= 2:
            fm = 0.5 * (res.f[0] + res.f[1])
            ok = ok and abs(res.get_measurement(float(fm), which) - 0.5 * (v[0] + v[1])) < 1e-9 * max(1, abs(v[0]))
        ok = ok and abs(res.get_measurement(float(res.f[0]) - 1.0, which) - v[0]) < 1e-12 * max(1, abs(v[0])) and abs(res.get_measurement(float(res.f[-1]) + 1.0, which) - v[-1]) < 1e-12 * max(1, abs(v[-1]))
        if not ok:
            fails.append({"label": "C20.get_measurement", "input": {"result": tag}, "detail": "interpolation is not tabulated-at-grid / linear / clamped"})
        n += 1
        try:
            df = res.to_dataframe()
            if len(df) != len(res.f) or not np.allclose(df.index.values, res.f) or ("Gxx" not in df.columns):
                fails.append({"label": "C20.to_dataframe", "input": {"result": tag}, "detail": "DataFrame does not contain the per-bin arrays indexed by frequency"})
            for col in df.columns:
                a = getattr(res, col)
                if isinstance(a, np.ndarray) and a.ndim == 1 and a.dtype != object and not np.array_equal(np.asarray(df[col]), a, equal_nan=True):
                    fails.append({"label": "C20.to_dataframe", "input": {"result": tag, "column": col}, "detail": "column differs from the attribute"})
                    break
        except Exception as e:
            fails.append({"label": "C20.to_dataframe", "input": {"result": tag}, "detail": "to_dataframe raised " + repr(e)[:120], "known_id": "D4-to_dataframe-2d-D"})
        for op, fn in (("copy", copy.copy), ("deepcopy", copy.deepcopy), ("pickle", lambda r: pickle.loads(pickle.dumps(r)))):
            n += 1
            try:
                r2 = fn(res)
                if not (np.array_equal(r2.f, res.f) and np.array_equal(np.asarray(r2.Gxx), np.asarray(res.Gxx)) and r2.iscsd == res.iscsd):
                    fails.append({"label": "C20.copy_pickle", "input": {"result": tag, "op": op}, "detail": "values differ after " + op})
            except RecursionError:
                fails.append({"label": "C20.copy_pickle", "input": {"result": tag, "op": op}, "detail": op + " raised RecursionError", "known_id": "D3-copy-pickle-recursion"})
            except Exception as e:
                fails.append({"label": "C20.copy_pickle", "input": {"result": tag, "op": op}, "detail": op + " raised " + repr(e)[:100]})
    return {"evaluations": n, "bound": "auto/cross x full/single-bin/uniform-K results", "failures": fails[:8], "n_failures": len(fails)}


BOUNDED["C20.exports"] = bounded_exports
PROPERTY_INFO["C20"]["bounded"] = ["C14.access_order", "C20.exports"]
PROPERTY_INFO["C20"]["not_decided"] = ["get_measurement / to_dataframe / copy / pickle: pandas, np.interp and the copy protocol are outside the interpreted subset; bounded run-time checks (the recursion of __getattr__ on a bare instance is proved separately)"]


# ---- SpectrumResult.__init__: the normalisation is value preserving (C05/C20: closes the 'trusted' entry) -------------
# compute() hands over plan fields + statistics; __init__ copies the dict, converts dtypes, rebuilds D as one object
# entry per bin.  Post: every array entry holds the same values (elementwise), D[i] holds the same starts, nf = len(f),
# the caller's dict is not written.

_RES_KEYS_REAL = ("f", "r", "b", "S12", "S2", "XX", "YY", "M2", "O", "compute_t")
_RES_KEYS_INT = ("L", "K", "navg")


def _result_init_setup(eng, st, fid, genv):
    from pyvc import values as V
    from pyvc.heap import DictV, ObjV
    from pyvc.loops import fresh_list

    nf = eng.fresh("nf", "int")
    st.assume(V.cmp(">=", nf, 1))
    d = {}
    for k in _RES_KEYS_REAL:
        d[k] = eng.alloc(st, eng.fresh_array("in_" + k, (nf,), "real"))
    for k in _RES_KEYS_INT:
        d[k] = eng.alloc(st, eng.fresh_array("in_" + k, (nf,), "int"))
    d["XY"] = eng.alloc(st, eng.fresh_array("in_XY", (nf,), "cx"))
    dl = fresh_list(eng, "in_D", "list[list[int]]")
    st.assume(V.cmp("==", dl.n, nf))
    d["D"] = eng.alloc(st, dl)
    d["nf"] = nf
    rd = eng.alloc(st, DictV(d))
    eng.setvar(st, fid, "results_dict", rd)
    eng.setvar(st, fid, "config_dict", eng.alloc(st, DictV({})))
    eng.setvar(st, fid, "iscsd", True)
    eng.setvar(st, fid, "fs", eng.fresh("fs", "real"))
    eng.setvar(st, fid, "self", eng.alloc(st, ObjV("SpectrumResult", {})))
    genv.update(nf=nf, IN=st.heap[rd.loc], IN_D=dl)
    st.tags["result_self"] = st.frames[fid]["vars"]["self"].loc
    st.tags["in_dict"] = rd.loc


def _result_init_post(eng, st, fid, res, entry):
    o = st.heap[st.tags["result_self"]]
    eng.set_ghost("OUT", st.heap[o.fields["_data"].loc], st)
    eng.set_ghost("SELF_NF", o.fields.get("nf"), st)
    eng.set_ghost("INPUT_DICT_UNCHANGED", st.heap[st.tags["in_dict"]] is entry.heap[st.tags["in_dict"]], st)


_same = " and ".join(f"OUT['{k}'][i] == IN['{k}'][i]" for k in _RES_KEYS_REAL + _RES_KEYS_INT + ("XY",))
UNITS.append(
    Unit(
        id="analysis.SpectrumResult.__init__",
        module=M,
        func="SpectrumResult.__init__",
        props=["C05", "C20"],
        setup=_result_init_setup,
        loops={
            # 0: list-valued entries (unrolled over the dict); 1..3: dtype loops (unrolled); 4, 5: D normalisation
            "4": dict(
                label="rows",
                types={"D_list": "list[list[int]]"},
                inv={"copied": "len(D_list) == _i and forall(0, _i, lambda q: len(D_list[q]) == len(IN_D[q]) and forall(0, len(IN_D[q]), lambda m: D_list[q][m] == IN_D[q][m]))"},
            ),
            "5": dict(
                label="entries",
                inv={"stored": "forall(0, _i, lambda q: len(D_arr[q]) == len(IN_D[q]) and forall(0, len(IN_D[q]), lambda m: D_arr[q][m] == IN_D[q][m]))"},
            ),
        },
        ensures={
            "C20.values_preserved": f"forall(0, nf, lambda i: {_same})",
            "C20.lengths_preserved": " and ".join(f"len(OUT['{k}']) == nf" for k in _RES_KEYS_REAL + _RES_KEYS_INT + ("XY", "D")),
            "C20.starts_preserved": "forall(0, nf, lambda i: len(OUT['D'][i]) == len(IN_D[i]) and forall(0, len(IN_D[i]), lambda m: OUT['D'][i][m] == IN_D[i][m]))",
            "C20.number_of_bins": "SELF_NF == nf",
            "C20.input_dict_not_written": "INPUT_DICT_UNCHANGED",
        },
        post_hook=_result_init_post,
        opts={"callee": False},
    )
)


# ---- get_measurement (C20): tabulated at the grid, linear in between (real and imaginary parts separately), clamped ----
# np.interp(x, xp, fp) is an assumed contract (DESIGN 3.2): for strictly increasing xp it is the piecewise-linear
# interpolant of (xp, fp), constant outside [xp[0], xp[-1]].  What is proved: get_measurement hands the requested
# frequency, the result's own grid and the requested quantity to it - real and imaginary parts separately for complex
# quantities - and returns that value.


def _gm_setup(kind):
    def setup(eng, st, fid, genv):
        import z3
        from pyvc import values as V
        from pyvc.heap import ObjV

        n = eng.fresh("nf", "int")
        st.assume(V.cmp(">=", n, 1))
        f = eng.fresh_array("grid", (n,), "real")
        q = z3.Int("gq")
        st.fact(z3.ForAll([q], z3.Implies(z3.And(q >= 0, q + 1 < n.t), f.uf(q) < f.uf(q + 1))))
        tgt = eng.fresh_array("quantity", (n,), kind)
        ref = eng.alloc(st, ObjV("SpectrumResult#plain", {"f": eng.alloc(st, f), "QTY": eng.alloc(st, tgt)}))
        eng.setvar(st, fid, "self", ref)
        fr = eng.fresh("freq", "real")
        eng.setvar(st, fid, "freq", fr)
        eng.setvar(st, fid, "which", "QTY")
        genv.update(n=n, GRID=f, QTY=tgt, freq=fr)

    return setup


_GM_ENS = {
    "C20.tabulated_value_at_a_grid_frequency": "forall(0, n, lambda j: implies(freq == GRID[j], result == QTY[j]))",
    "C20.clamped_below_and_above": "implies(freq <= GRID[0], result == QTY[0]) and implies(freq >= GRID[n - 1], result == QTY[n - 1])",
    "C20.linear_in_between": "forall(0, n - 1, lambda j: implies(GRID[j] <= freq and freq <= GRID[j + 1], result == QTY[j] + (freq - GRID[j]) * (QTY[j + 1] - QTY[j]) / (GRID[j + 1] - GRID[j])))",
}
for _k in ("real", "cx"):
    UNITS.append(
        Unit(
            id=f"analysis.SpectrumResult.get_measurement[{'complex' if _k == 'cx' else 'real'} quantity]",
            module=M,
            func="SpectrumResult.get_measurement",
            props=["C20"],
            setup=_gm_setup(_k),
            ensures=_GM_ENS,
            raises={},
            opts={"callee": False},
        )
    )

_install_gm = install


def install(eng):  # noqa: F811
    _install_gm(eng)
    import z3
    from pyvc import values as V
    from pyvc.heap import Builtin, ArrV
    from pyvc.values import Sym, Unsupported

    def interp(eng_, st, x, xp, fp):
        x, xp, fp = eng_.deref(st, x), eng_.deref(st, xp), eng_.deref(st, fp)
        if isinstance(x, ArrV) and x.shape == ():
            x = x.fn(())
        if isinstance(x, ArrV) or not (isinstance(xp, ArrV) and isinstance(fp, ArrV) and len(xp.shape) == 1):
            raise Unsupported("np.interp: only a scalar abscissa on 1-D tables is modelled")
        real = eng_.cur_state
        n = xp.shape[0]
        r = eng_.fresh("interp", "real")
        xt, nt = V.real_term(x), V.int_term(n)
        j = z3.Int("ij")
        xj = lambda i: V.real_term(xp.fn((Sym(i, "int"),)))
        fj = lambda i: V.real_term(fp.fn((Sym(i, "int"),)))
        real.fact(z3.Implies(xt <= xj(z3.IntVal(0)), r.t == fj(z3.IntVal(0))))
        real.fact(z3.Implies(xt >= xj(nt - 1), r.t == fj(nt - 1)))
        real.fact(z3.ForAll([j], z3.Implies(z3.And(j >= 0, j + 1 < nt, xj(j) <= xt, xt <= xj(j + 1)), r.t == fj(j) + (xt - xj(j)) * (fj(j + 1) - fj(j)) / (xj(j + 1) - xj(j))), patterns=[xj(j)]))
        eng_.trusted.add("np.interp(x, xp, fp) for strictly increasing xp: the piecewise-linear interpolant, constant outside [xp[0], xp[-1]] (assumed)")
        return r

    eng.builtins["__modules__"]["numpy"].attrs["interp"] = Builtin("numpy.interp", interp, True)
