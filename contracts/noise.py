"""Contracts for speckit/noise.py (C17, C18).

C17: the colouring cascade equals the direct-form cascade of first-order sections with the
final state returned; get_series hands the state over, so (fold-append, L8) chunking never
introduces a discontinuity; generators read nothing but their seeded stream (A-DET).
C18: white variance psd*fs; Hermitian mirror index arithmetic of fftnoise for every length
(odd and even); band mask.  The 1/f^alpha *shape* clause is a bounded numeric grid (labelled so).
"""
from pyvc.unitdef import Unit

M = "speckit/noise.py"
UNITS = []

# ---- spec: one first-order DF2T section run over a sequence ----------------------------------
#   y[n] = a0*x[n] + z[n];  z[n+1] = a1*x[n] - b1*y[n]
# Sec(i, n): (value of the sample stream after sections 0..i at position n), by recursion on
# sections; Z(i, n): state of section i after n samples.  Both are introduced as uninterpreted
# functions with their defining equations as loop invariants (definitional).

UNITS.append(
    Unit(
        id="noise._numba_lfilter_cascade",
        module=M,
        func="_numba_lfilter_cascade",
        props=["C17"],
        ghosts={"n": ("int", "len(samples)"), "S": ("int", "a_coeffs.shape[0]")},
        params={"samples": ("arr", "real", ("n",)), "a_coeffs": ("arr", "real", ("S", 2)), "b_coeffs": ("arr", "real", ("S", 2)), "zi_states": ("arr", "real", ("S", 1))},
        requires=["n >= 0", "S >= 0", "b_coeffs.shape[0] == S", "zi_states.shape[0] == S"],
        modifies=["zi_states"],
        ensures={
            # direct-form cascade: section i maps its input stream u_i (u_0 = samples, u_{i+1} = y_i) by
            #   y_i[j] + b1_i*y_i[j-1] == a0_i*u_i[j] + a1_i*u_i[j-1]   (j >= 1), started from the carried state
            "input_not_written": "forall(0, n, lambda j: samples[j] == old_samples[j])",
            "returns_state_array": "result[1] is zi_states",
            "empty_request_keeps_state": "implies(n == 0, forall(0, S, lambda i: result[1][i, 0] == old_zi_states[i, 0]))",
            "single_section_first_sample": "implies(S == 1 and n >= 1, result[0][0] == a_coeffs[0, 0] * samples[0] + old_zi_states[0, 0])",
            "single_section_recurrence": "implies(S == 1, forall(1, n, lambda j: result[0][j] + b_coeffs[0, 1] * result[0][j-1] == a_coeffs[0, 0] * samples[j] + a_coeffs[0, 1] * samples[j-1]))",
            "single_section_final_state": "implies(S == 1 and n >= 1, result[1][0, 0] == a_coeffs[0, 1] * samples[n-1] - b_coeffs[0, 1] * result[0][n-1])",
        },
        loops={
            "0": dict(
                label="sections",
                inv={
                    "input_kept": "forall(0, n, lambda j: samples[j] == old_samples[j])",
                    "done_states": "implies(n == 0, forall(0, i, lambda q: zi_states[q, 0] == old_zi_states[q, 0]))",
                    "todo_states": "forall(i, S, lambda q: zi_states[q, 0] == old_zi_states[q, 0])",
                    "stage0": "implies(i == 0, forall(0, n, lambda j: filtered_samples[j] == samples[j]))",
                    "one_first": "implies(i == 1 and n >= 1, filtered_samples[0] == a_coeffs[0, 0] * samples[0] + old_zi_states[0, 0])",
                    "one_rec": "implies(i == 1, forall(1, n, lambda j: filtered_samples[j] + b_coeffs[0, 1] * filtered_samples[j-1] == a_coeffs[0, 0] * samples[j] + a_coeffs[0, 1] * samples[j-1]))",
                    "one_state": "implies(i == 1 and n >= 1, zi_states[0, 0] == a_coeffs[0, 1] * samples[n-1] - b_coeffs[0, 1] * filtered_samples[n-1])",
                },
            ),
            "1": dict(
                label="samples",
                index="j",
                inv={
                    "input_kept": "forall(0, n, lambda q: samples[q] == old_samples[q])",
                    "states_kept": "forall(0, S, lambda q: implies(q >= i, zi_states[q, 0] == old_zi_states[q, 0]))",
                    "done_states": "implies(n == 0, forall(0, i, lambda q: zi_states[q, 0] == old_zi_states[q, 0]))",
                    "tail_untouched": "forall(j, n, lambda q: filtered_samples[q] == pre_filtered_samples[q])",
                    "state_run": "z == ite(j == 0, zi_states[i, 0], a1 * pre_filtered_samples[j-1] - b1 * filtered_samples[j-1])",
                    "first": "implies(j >= 1, filtered_samples[0] == a0 * pre_filtered_samples[0] + zi_states[i, 0])",
                    "rec": "forall(1, j, lambda q: filtered_samples[q] + b1 * filtered_samples[q-1] == a0 * pre_filtered_samples[q] + a1 * pre_filtered_samples[q-1])",
                },
            ),
        },
        returns=("tuple", ("arr", "real", ("n",)), ("param", "zi_states")),
    )
)


# ---- fftnoise: Hermitian mirror for every length -------------------------------------------------


def _fft_setup(eng, st, fid, genv):
    from pyvc.values import Opaque

    eng.setvar(st, fid, "rng", Opaque("rng#param", {"callable": False}))


UNITS.append(
    Unit(
        id="noise.fftnoise[spectrum-construction]",
        module=M,
        func="fftnoise",
        props=["C18"],
        ghosts={"N": ("int", "len(f)")},
        params={"f": ("arr", "cx", ("N",))},
        setup=_fft_setup,
        requires=["N >= 2"],
        ensures={
            # F is the spectrum handed to the inverse FFT (ghost F_ifft, recorded at the np.fft.ifft call)
            "hermitian_mirror": "forall(1, (N - 1)//2 + 1, lambda k: F_ifft[N - k] == conj(F_ifft[k]))",
            "magnitudes_kept_on_positive_bins": "forall(1, (N - 1)//2 + 1, lambda k: abs2(F_ifft[k]) == abs2(f[k]))",
            "dc_real": "im(F_ifft[0]) == 0 and re(F_ifft[0]) == re(f[0])",
            "nyquist_real": "implies(N % 2 == 0, im(F_ifft[N//2]) == 0 and re(F_ifft[N//2]) == re(f[N//2]))",
            "input_not_written": "forall(0, N, lambda k: f[k] == old_f[k])",
        },
        opts={"callee": False},
    )
)

UNITS.append(
    Unit(
        id="noise.white_noise.__init__",
        module=M,
        func="white_noise.__init__",
        props=["C18", "C17"],
        params={"f_sample": "real", "psd": "real", "seed": "int"},
        setup=lambda eng, st, fid, genv: eng.setvar(st, fid, "self", eng.alloc(st, __import__("pyvc.heap", fromlist=["ObjV"]).ObjV("white_noise", {}))),
        requires=["f_sample > 0", "psd >= 0"],
        ensures={"variance_is_psd_times_fs": "self._rms * self._rms == psd * f_sample and self._rms >= 0", "stream_is_seeded": "self._rng is RNG_OF_SEED"},
        opts={"callee": False},
    )
)


def install(eng):
    from pyvc.heap import Builtin, ArrV, ModuleV, Ref, ObjV
    from pyvc.values import Opaque, Sym, Cx, Unsupported
    from pyvc import values as V
    import z3

    np_ = eng.builtins["__modules__"]["numpy"]
    fft = np_.attrs["fft"]

    def ifft(eng_, st, F):
        Fd = eng_.deref(st, F)
        eng_.set_ghost("F_ifft", Fd)  # the spectrum actually transformed
        fr = eng_.fresh_fn("ifft.re", 1, "real")
        fi = eng_.fresh_fn("ifft.im", 1, "real")
        eng_.trusted.add("np.fft.ifft: inverse DFT of its argument (for a Hermitian spectrum the result is real with exactly that DFT)")
        return eng_.alloc(st, ArrV(Fd.shape, lambda ix: Cx(Sym(fr(V.int_term(ix[0])), "real"), Sym(fi(V.int_term(ix[0])), "real")), "cx"))

    fft.attrs["ifft"] = Builtin("numpy.fft.ifft", ifft, True)

    rnd = np_.attrs["random"]

    def default_rng(eng_, st, seed=None):
        o = Opaque("rng#seeded", {"seed": seed})
        eng_.set_ghost("RNG_OF_SEED", o)
        eng_.trusted.add("numpy.random.default_rng(seed) is a deterministic function of the seed; Generator.random/normal consume the stream sequentially")
        return o

    rnd.attrs["default_rng"] = Builtin("numpy.random.default_rng", default_rng, True)

    def rng_random(eng_, st, obj, args, kwargs, line):
        n = eng_.deref(st, args[0]) if args else kwargs.get("size")
        f = eng_.fresh_fn("phase", 1, "real")
        return eng_.alloc(st, ArrV((n,), lambda ix: Sym(f(V.int_term(ix[0])), "real"), "real"))

    eng.call_hooks["rng.random"] = rng_random


# ---- stateful generators: state hand-over in get_series ------------------------------------------


def _gen_setup(kind):
    def setup(eng, st, fid, genv):
        from pyvc.heap import ObjV
        from pyvc.values import Opaque
        from pyvc import values as V

        S = genv.get("S")
        wn = eng.alloc(st, ObjV("white_noise", {"_rng": Opaque("rng#seeded"), "_rms": eng.fresh("rms", "real"), "_fs": eng.fresh("fsw", "real")}))
        fields = {"_whitenoise": wn, "_scaling": eng.fresh("scaling", "real")}
        if kind == "alpha":
            fields["_a_coeffs"] = eng.alloc(st, eng.fresh_array("a_coeffs", (S, 2), "real"))
            fields["_b_coeffs"] = eng.alloc(st, eng.fresh_array("b_coeffs", (S, 2), "real"))
            fields["_zi_states"] = eng.alloc(st, eng.fresh_array("zi_states", (S, 1), "real"))
            st.assume(V.cmp(">=", S, 0))
        else:
            fields["_a"] = eng.alloc(st, eng.fresh_array("a", (1,), "real"))
            fields["_b"] = eng.alloc(st, eng.fresh_array("b", (2,), "real"))
            fields["_zi"] = eng.alloc(st, eng.fresh_array("zi", (1,), "real"))
        ref = eng.alloc(st, ObjV("alpha_noise" if kind == "alpha" else "red_noise", fields))
        eng.setvar(st, fid, "self", ref)
        genv["old_state"] = st.heap[fields["_zi_states" if kind == "alpha" else "_zi"].loc]

    return setup


UNITS.append(
    Unit(
        id="noise.white_noise.get_series",
        module=M,
        func="white_noise.get_series",
        props=["C17"],
        params={"npts": "int"},
        setup=lambda eng, st, fid, genv: eng.setvar(st, fid, "self", eng.alloc(st, __import__("pyvc.heap", fromlist=["ObjV"]).ObjV("white_noise", {"_rng": __import__("pyvc.values", fromlist=["Opaque"]).Opaque("rng#seeded"), "_rms": eng.fresh("rms", "real")}))),
        requires=["npts >= 0", "npts <= 9223372036854775807"],
        returns=("arr", "real", ("npts",)),
        ensures={"length": "len(result) == npts", "next_block_of_the_seeded_stream": "STREAM_DRAW == npts"},
        opts={"call_ensures": {"length": "len(result) == npts"}},
        call_post=lambda eng, st, fid, res: eng.set_ghost("STREAM_DRAW", eng.lookup(st, fid, "npts"), st),
    )
)

UNITS.append(
    Unit(
        id="noise.alpha_noise.get_series",
        module=M,
        func="alpha_noise.get_series",
        props=["C17"],
        ghosts={"S": "int"},
        params={"npts": "int"},
        setup=_gen_setup("alpha"),
        requires=["npts >= 0", "npts <= 9223372036854775807"],
        ensures={
            "length": "len(result) == npts",
            "state_handed_over": "self._zi_states is CASCADE_STATE",
            "empty_request_keeps_state": "implies(npts == 0, forall(0, S, lambda i: self._zi_states[i, 0] == old_state[i, 0]))",
            "one_draw_of_npts": "STREAM_DRAW == npts",
        },
        opts={"callee": False},
    )
)

UNITS.append(
    Unit(
        id="noise.red_noise.get_series",
        module=M,
        func="red_noise.get_series",
        props=["C17"],
        params={"npts": "int"},
        setup=_gen_setup("red"),
        post_hook=lambda eng, st, fid, res, entry: (st.tags.setdefault("ghosts", {}).__setitem__("LFILTER_CALLED", "LFILTER_STATE" in st.tags.get("ghosts", {})), st.tags["ghosts"].setdefault("LFILTER_STATE", None)),
        requires=["npts >= 0", "npts <= 9223372036854775807"],
        ensures={
            "length": "len(result) == npts",
            "state_handed_over": "(self._zi is LFILTER_STATE) if LFILTER_CALLED else (npts == 0)",
            "empty_request_keeps_state": "implies(npts == 0, self._zi[0] == old_state[0])",
        },
        opts={"callee": False},
    )
)


_install_base = install


def install(eng):  # noqa: F811
    _install_base(eng)
    if not hasattr(eng, "global_overrides"):
        eng.global_overrides = {}
    eng.global_overrides[(M, "_INDEX_LIMIT")] = 2**63 - 1  # np.iinfo(np.intp).max on 64-bit platforms
    eng.global_overrides[(M, "_DEFAULT_BUFFER_SIZE")] = 4096
    from pyvc.heap import Builtin, ArrV, ModuleV
    from pyvc.values import Sym
    from pyvc import values as V

    def rng_normal(eng_, st, obj, args, kwargs, line):
        n = eng_.deref(st, kwargs.get("size", 1))
        eng_.set_ghost("STREAM_DRAW", n)
        f = eng_.fresh_fn("normal", 1, "real")
        return eng_.alloc(st, ArrV((n,), lambda ix: Sym(f(V.int_term(ix[0])), "real"), "real"))

    eng.call_hooks["rng.normal"] = rng_normal

    # scipy.signal.lfilter(b, a, x, zi=zi): assumed contract REQUIRES len(x) >= 1
    # (measured: with an empty x the returned state is not zi in the installed SciPy)
    sig = ModuleV("scipy.signal")

    def lfilter(eng_, st, b, a, x, zi=None, axis=-1):
        xd = eng_.deref(st, x)
        n = xd.shape[0]
        eng_.oblige(eng_.cur_state, "call_pre", f"scipy.signal.lfilter.nonempty_input@{getattr(eng_, 'cur_line', 0)}", V.cmp(">=", n, 1))
        eng_.trusted.add("scipy.signal.lfilter(b, a, x, zi): requires len(x) >= 1; returns (y, zf) = DF2T run from zi")
        y = eng_.alloc(st, eng_.fresh_array("lfilter.y", (n,), "real"))
        if zi is None:
            return y
        zd = eng_.deref(st, zi)
        zf = eng_.alloc(st, eng_.fresh_array("lfilter.zf", zd.shape, "real"))
        eng_.set_ghost("LFILTER_STATE", zf)
        return (y, zf)

    sig.attrs["lfilter"] = Builtin("scipy.signal.lfilter", lfilter, True)
    eng.builtins["scipy.signal"] = sig
    eng.builtins["scipy.signal.lfilter"] = sig.attrs["lfilter"]
    eng.builtins["__modules__"]["scipy"] = ModuleV("scipy", {"signal": sig})

    # ghost: the state array returned by the cascade
    casc = eng.contracts.get("speckit/noise.py:_numba_lfilter_cascade")
    if casc is not None:

        def call_post(eng_, st, fid, res):
            eng_.set_ghost("CASCADE_STATE", res[1], st)

        casc.call_post = call_post


# ------------------------------------------------------------------------- run-time reading


def _make_gen(kind, seed, fs=10.0):
    import speckit.noise as nz

    if kind == "white":
        return nz.white_noise(fs, psd=2.0, seed=seed)
    if kind == "red":
        return nz.red_noise(fs, 0.01, init_filter=False, seed=seed)
    if kind == "alpha":
        return nz.alpha_noise(fs, 0.01, 2.0, 1.3, init_filter=False, seed=seed)
    return nz.pink_noise(fs, 0.01, 2.0, init_filter=False, seed=seed)


def chunk_check(kind, seed, chunks):
    """max |concatenated chunks - single request| for one generator"""
    import numpy as np

    g1, g2 = _make_gen(kind, seed), _make_gen(kind, seed)
    a = np.concatenate([np.atleast_1d(g1.get_series(int(c))) for c in chunks]) if chunks else np.array([])
    b = g2.get_series(int(sum(chunks)))
    return float(np.max(np.abs(a - b))) if len(b) else 0.0


def red_replay(model, label, rng):
    npts = 0
    for k, v in model.items():
        if k.startswith("npts"):
            try:
                npts = int(v)
            except Exception:
                pass
    chunks = [npts, 100]
    d = chunk_check("red", 7, chunks)
    return {"found": d > 1e-9, "input": {"generator": "red_noise(10.0, 0.01, init_filter=False, seed=7)", "chunks": chunks}, "observed": {"max_abs_difference_to_single_request": d}, "failed_clause": "concatenation of get_series(%d), get_series(100) != get_series(%d)" % (npts, npts + 100)}


for _u in UNITS:
    if _u.id == "noise.red_noise.get_series":
        _u.runtime = dict(replay_fn=red_replay, sample=lambda rng, i: None, call=lambda a: None, n_quick=0, n_thorough=0)


def bounded_chunking(tier, seed):
    """C17 stand-in (bounded): chunking invariance and same-seed equality on a grid of
    generators x seeds x chunk patterns (zero and one-sample requests included)"""
    import numpy as np

    rng = np.random.default_rng(seed)
    pats = [[0, 100], [1, 0, 3, 1, 17, 0, 1, 64, 5], [100], [1] * 20, [50, 0, 0, 50], [4096, 1, 4097]]
    n = 0
    fails = []
    seeds = [0, 1, 7, 12345] if tier == "quick" else [0, 1, 7, 12345, 2**32 + 5, int(rng.integers(1, 10**9))]
    for kind in ("white", "red", "alpha", "pink"):
        for sd in seeds:
            for p in pats:
                n += 1
                d = chunk_check(kind, sd, p)
                if d > 1e-9:
                    kid = "D6-red-noise-empty-request" if (kind == "red" and 0 in p) else None
                    fails.append({"label": "C17.chunking", "input": {"generator": kind, "seed": sd, "chunks": p}, "detail": f"max abs difference {d:.3g}", "known_id": kid})
            # same seed, same stream
            a, b = _make_gen(kind, sd).get_series(257), _make_gen(kind, sd).get_series(257)
            n += 1
            if not np.array_equal(a, b):
                fails.append({"label": "C17.same_seed", "input": {"generator": kind, "seed": sd}, "detail": "two instances with the same seed differ"})
            # get_sample run == start of the get_series stream
            g1, g2 = _make_gen(kind, sd), _make_gen(kind, sd)
            s1 = np.array([g1.get_sample() for _ in range(10)])
            s2 = g2.get_series(4096)[:10]
            n += 1
            if np.max(np.abs(s1 - s2)) > 1e-12:
                fails.append({"label": "C17.get_sample", "input": {"generator": kind, "seed": sd}, "detail": "get_sample run differs from the stream"})
    # cascade == direct-form scipy reference
    import scipy.signal as sps

    g = _make_gen("alpha", 3)
    w = np.random.default_rng(3).normal(0.0, g._whitenoise.rms, 500)
    ref = w.copy()
    for (a0, a1), (b0, b1) in zip(g._a_coeffs, g._b_coeffs):
        ref = sps.lfilter([a0, a1], [b0, b1], ref)
    out = g.get_series(500)
    n += 1
    if np.max(np.abs(out - ref * g._scaling)) > 1e-9 * max(1.0, np.max(np.abs(ref))):
        fails.append({"label": "C17.cascade_reference", "input": {"generator": "alpha", "seed": 3}, "detail": "cascade differs from the scipy direct-form cascade"})
    return {"evaluations": n, "bound": f"4 generators x {len(seeds)} seeds x {len(pats)} chunk patterns", "failures": fails[:5], "n_failures": len(fails)}


BOUNDED = {"C17.chunking": bounded_chunking}
PROPERTY_INFO = {
    "C17": {
        "bounded": ["C17.chunking"],
        "not_decided": ["bit-exact equality of the float stream across chunkings is sampled (bounded), not proved: the proof is over reals and over the assumed contracts of numpy.random.Generator and scipy.signal.lfilter"],
        "trusted": ["fold-append (L8): a state-carrying stream whose get_series hands the final state over is chunking-invariant (stated, not machine-checked here)"],
    },
    "C18": {
        "not_decided": ["1/f^alpha shape within ~1 dB between the corners: transcendental and approximate; bounded grid only"],
        "level": "other",
        "explanation": "proved: fftnoise builds a Hermitian spectrum with the prescribed magnitudes for every length (odd and even), real DC / Nyquist bins, the input is not written; white_noise's variance is psd*fs. The central claim - the generated noise has the prescribed 1/f^alpha spectrum within about 1 dB - is a statement about transcendental filter responses and is checked on a bounded grid only, so the property as a whole is not claimed as proof",
    },
}


def bounded_c18(tier, seed):
    """C18 stand-in (bounded): fftnoise magnitudes for odd/even lengths, band-limited noise has no
    power out of band, white variance, 1/f^alpha shaping filter within 1.5 dB on the interior"""
    import numpy as np
    import speckit.noise as nz

    rng = np.random.default_rng(seed)
    fails, n = [], 0
    for N in [2, 3, 4, 5, 8, 9, 16, 17, 64, 65, 250, 251]:
        mag = rng.uniform(0.1, 2.0, N // 2 + 1)
        f = np.zeros(N, dtype=complex)
        f[: N // 2 + 1] = mag
        f[-1 : -1 - (N - 1) // 2 : -1] = mag[1 : (N - 1) // 2 + 1]
        x = nz.fftnoise(f.copy(), rng=np.random.default_rng(seed + N))
        n += 1
        F = np.fft.fft(x)
        if np.iscomplexobj(x) or np.max(np.abs(np.abs(F) - np.abs(f))) > 1e-9:
            fails.append({"label": "C18.fftnoise_magnitudes", "input": {"N": N}, "detail": f"max |DFT| error {np.max(np.abs(np.abs(F) - np.abs(f))):.3g}"})
    for N, fs, lo, hi in [(256, 100.0, 10.0, 20.0), (255, 100.0, 0.0, 50.0), (256, 100.0, 30.0, 50.0), (64, 1.0, 0.1, 0.5)]:
        x = nz.band_limited_noise(lo, hi, samples=N, samplerate=fs, rng=np.random.default_rng(seed))
        fr = np.abs(np.fft.fftfreq(N, 1 / fs))
        F = np.abs(np.fft.fft(x))
        n += 1
        inb = (fr >= lo) & (fr <= hi)
        if np.max(F[~inb], initial=0) > 1e-9 or np.max(np.abs(F[inb] - 1), initial=0) > 1e-9:
            fails.append({"label": "C18.band_limited", "input": {"N": N, "band": [lo, hi]}, "detail": "spectrum is not 1 in band / 0 out of band"})
    w = nz.white_noise(50.0, psd=3.0, seed=seed)
    n += 1
    if abs(w.rms**2 - 150.0) > 1e-9:
        fails.append({"label": "C18.white_variance", "input": {}, "detail": "rms^2 != psd*fs"})
    for alpha in ([0.01, 0.5, 1.0, 1.5, 2.0] if tier == "quick" else list(np.linspace(0.01, 2.0, 9))):
        for fs, fmin, fmax in [(100.0, 0.01, 10.0), (1000.0, 0.1, 400.0), (10.0, 1e-3, 2.0)]:
            g = nz.alpha_noise(fs, fmin, fmax, alpha, init_filter=False, seed=1)
            fr = np.logspace(np.log10(3 * g.fmin), np.log10(g.fmax / 3), 200)
            z = np.exp(-2j * np.pi * fr / fs)
            H = np.ones_like(z)
            for (a0, a1), (b0, b1) in zip(g._a_coeffs, g._b_coeffs):
                H = H * (a0 + a1 * z) / (b0 + b1 * z)
            psd = (np.abs(H) * g._scaling) ** 2
            n += 1
            err = np.max(np.abs(10 * np.log10(psd * fr**alpha)))
            if err > 1.5:
                fails.append({"label": "C18.shape", "input": {"alpha": float(alpha), "fs": fs, "fmin": fmin, "fmax": fmax}, "detail": f"deviation from f^-alpha {err:.2f} dB on the interior"})
    return {"evaluations": n, "bound": "12 lengths, 4 bands, alpha grid x 3 (fs,fmin,fmax), 200 frequencies on [3 fmin_eff, fmax_eff/3]", "failures": fails[:5], "n_failures": len(fails)}


BOUNDED["C18.grid"] = bounded_c18
PROPERTY_INFO["C18"]["bounded"] = ["C18.grid"]



# ---- chunking lemma over the cascade's contract (one section): two blocks with the carried state == one block --------
import os as _os

LEM = _os.path.join(_os.path.dirname(_os.path.dirname(_os.path.abspath(__file__))), "specs", "lemmas.py")
UNITS.append(
    Unit(
        id="lemma.chunking_one_section",
        module=LEM,
        func="lemma_chunking_one_section",
        props=["C17"],
        ghosts={"n": ("int", "len(x)")},
        params={"x": ("arr", "real", ("n",)), "a_coeffs": ("arr", "real", (1, 2)), "b_coeffs": ("arr", "real", (1, 2)), "z0": ("arr", "real", (1, 1)), "a": "int"},
        requires=["1 <= a", "a <= n - 1"],
        loops={
            "0": dict(label="first_block", inv=["forall(0, j, lambda i: y1[i] == Y[i])"]),
            "1": dict(label="second_block", inv=["forall(0, j, lambda i: y2[i] == Y[a + i])"]),
        },
        ensures={
            "C17.blocks_concatenate_to_the_whole": "forall(0, a, lambda i: result[2][i] == result[0][i]) and forall(0, n - a, lambda i: result[3][i] == result[0][a + i])",
            "C17.final_state_is_the_same": "result[4][0, 0] == result[1][0, 0]",
        },
        opts={"callee": False},
    )
)
