"""C12: what SpecKit contributes to the Kaiser side-lobe level, and the bounded stand-in for the level itself.

Proved: utils.kaiser_alpha is the stated cubic in psll/100 (coefficients pinned), utils.kaiser_rov the stated rational
function; the window handed to every kernel is np.kaiser(L+1, alpha*pi)[:-1] with alpha = kaiser_alpha(psll)
(compute_single_bin / _lpsd_core call-site obligations, contracts/analysis_compute.py).
Not decidable by a contract: the side-lobe level of the Kaiser window itself (Bessel functions, a continuum of offsets
and fractional bin positions): bounded grid, labelled bounded, never counted as proved.
"""
from pyvc.unitdef import Unit

UNITS = []
U = "speckit/utils.py"

UNITS.append(
    Unit(
        id="utils.kaiser_alpha",
        module=U,
        func="kaiser_alpha",
        props=["C12"],
        params={"psll": "real"},
        returns="real",
        ensures={"C12.alpha_is_the_stated_cubic": "result == -0.0821377 + 4.71469 * (psll / 100) - 0.493285 * (psll / 100)**2 + 0.0889732 * (psll / 100)**3"},
        opts={"callee": False},
    )
)
UNITS.append(
    Unit(
        id="utils.kaiser_rov",
        module=U,
        func="kaiser_rov",
        props=["C12", "C04"],
        params={"alpha": "real"},
        requires=["0.0061076 + 0.00912223 * alpha - 0.000925946 * alpha**2 + 4.42204e-05 * alpha**3 != 0"],
        returns="real",
        ensures={"overlap_is_the_stated_rational_function": "result == (100 - 1 / (0.0061076 + 0.00912223 * alpha - 0.000925946 * alpha**2 + 4.42204e-05 * alpha**3)) / 100"},
        opts={"callee": False},
    )
)


def bounded_sidelobes(tier, seed):
    """C12 (bounded): for the window the analyzer builds (np.kaiser(L+1, alpha*pi)[:-1], alpha = kaiser_alpha(psll)) the
    response to a sinusoid at every analysis offset beyond sqrt(1+alpha^2) bins is at least psll-1 dB below the response
    at the sinusoid's own frequency - grid over psll, L, fractional bin position and offset; also through the analyzer"""
    import numpy as np
    from speckit.utils import kaiser_alpha
    from speckit import SpectrumAnalyzer

    rng = np.random.default_rng(seed)
    fails, n, worst = [], 0, 1e9
    pslls = (60, 100, 150, 200) if tier == "quick" else (60, 80, 100, 120, 150, 180, 200)
    Ls = (64, 257, 1000) if tier == "quick" else (32, 64, 100, 257, 1000, 4096)
    for psll in pslls:
        alpha = float(kaiser_alpha(psll))
        edge = np.sqrt(1 + alpha**2)
        for L in Ls:
            w = np.kaiser(L + 1, alpha * np.pi)[:-1]
            nvec = np.arange(L)
            for frac in (0.0, 0.25, 0.5) if tier == "quick" else (0.0, 0.1, 0.25, 0.5, 0.77):
                b0 = L / 4 + frac  # sinusoid at a fractional bin, far from 0 and Nyquist
                x = np.cos(2 * np.pi * b0 * nvec / L + 0.3)
                ref = abs(np.sum(w * x * np.exp(-2j * np.pi * b0 * nvec / L)))
                offs = np.concatenate([edge + np.linspace(0.0, 6.0, 61), edge + np.linspace(6.5, min(L / 8, 60.0), 40)])
                for sgn in (1, -1):
                    bb = b0 + sgn * offs
                    bb = bb[(bb > 2 * edge) & (bb < L / 2 - 2 * edge)]
                    if len(bb) == 0:
                        continue
                    resp = np.abs(np.exp(-2j * np.pi * np.outer(bb, nvec) / L) @ (w * x))
                    n += len(bb)
                    # float64 round-off floor of the DFT sum (~1e-16 * sum|w x|) limits what 200 dB can show
                    floor = 4e-16 * np.sum(np.abs(w * x)) * np.sqrt(L)
                    db = 20 * np.log10(ref / np.maximum(resp, floor))
                    margin = float(np.min(db) - (psll - 1))
                    worst = min(worst, margin)
                    if margin < 0:
                        j = int(np.argmin(db))
                        fails.append({"label": "C12.sidelobe_level", "input": {"psll": psll, "L": L, "bin": b0, "offset_bins": float(bb[j] - b0)}, "detail": f"suppression {db[j]:.2f} dB < psll-1 = {psll-1} dB"})
    # through the analyzer: a sinusoid analysed away from its frequency
    for psll in (60, 120, 200) if tier == "quick" else (60, 100, 150, 180, 200):
        # (200 dB is the default request: the statement holds "up to the 200 dB default")
        N, fs, L = 8000, 100.0, 400
        alpha = float(kaiser_alpha(psll))
        f0 = fs * (100.3) / L
        x = np.cos(2 * np.pi * f0 * np.arange(N) / fs)
        an = SpectrumAnalyzer(x, fs, olap=0.5, Jdes=10, Kdes=5, psll=psll, order=-1, scheduler="ltf")
        p0 = an.compute_single_bin(f0, L=L).Gxx[0]
        for off in (np.sqrt(1 + alpha**2) + 0.5, 8.3, 20.0):
            n += 1
            p1 = an.compute_single_bin(f0 + off * fs / L, L=L).Gxx[0]
            db = 10 * np.log10(p0 / max(p1, 1e-300))
            if db < psll - 1:
                fails.append({"label": "C12.sidelobe_level_through_analyzer", "input": {"psll": psll, "offset_bins": float(off)}, "detail": f"suppression {db:.2f} dB < {psll-1} dB"})
    return {"evaluations": n, "bound": f"psll in {list(pslls)}, L in {list(Ls)}, fractional positions, offsets up to 60 bins beyond sqrt(1+alpha^2); worst margin {worst:.2f} dB above psll-1", "failures": fails[:6], "n_failures": len(fails)}


BOUNDED = {"C12.sidelobes": bounded_sidelobes}
PROPERTY_INFO = {"C12": {"bounded": ["C12.sidelobes"], "level": "other", "explanation": "what the SpecKit code contributes (alpha cubic, window construction handed to every kernel) is proved; the side-lobe level of the Kaiser window itself is a bounded grid evaluation, never counted as proved"}}
