"""Contracts for SpectrumAnalyzer.compute_single_bin / _lpsd_core / compute (C05, C07, C08, C12,
C14) and core._build_Q / _select_backend.

Style: *call-site obligations*.  Every kernel is under contract (contracts/core*.py: its result
equals the reference estimator of its arguments).  What is proved here is that the analyzer
hands each kernel exactly the arguments the property names - the analyzer's own record, the
reported segment starts D, the reported length L, the window WIN(L) of the configuration
(Kaiser: kaiser(L+1, alpha*pi)[:-1]), omega = 2*pi*f/fs taken from the *frequency*, the basis
_build_Q(L, order) - that the kernel family matches (order, mode, backend), and that the
reported XX, YY, XY, S12, S2, M2, L, K, navg, D are the kernel's results / arguments.
"""
from pyvc.unitdef import Unit

M = "speckit/analysis.py"
UNITS = []

KERNELS = {}
for fam in ("win_only", "detrend0", "poly"):
    for mode in ("auto", "csd"):
        KERNELS[f"_stats_{fam}_{mode}"] = ("numba", fam, mode)
        KERNELS[f"_stats_{fam}_{mode}_np"] = ("numpy", fam, mode)
        KERNELS[f"_stats_{fam}_{mode}_cuda"] = ("cuda", fam, mode)


def build_analyzer(eng, st, fid, genv, iscsd, order, backend, kaiser=True):
    from pyvc import values as V
    from pyvc.heap import DictV, ObjV
    from pyvc.values import Opaque

    nx = eng.fresh("nx", "int")
    fs = eng.fresh("fs", "real")
    olap = eng.fresh("final_olap", "real")
    st.assume(V.cmp(">=", nx, 1))
    st.assume(V.cmp(">", fs, 0))
    st.assume(V.b_and(V.cmp("<=", 0, olap), V.cmp("<", olap, 1)))
    x1 = eng.alloc(st, eng.fresh_array("rec1", (nx,), "real"))
    x2 = eng.alloc(st, eng.fresh_array("rec2", (nx,), "real")) if iscsd else None
    alpha = eng.fresh("alpha", "real") if kaiser else None
    win = eng.builtins["numpy.kaiser"] if kaiser else Opaque("customwin", {"callable": True, "__name__": "customwin"})
    cfg = {"final_olap": olap, "win_func": win, "alpha": alpha, "order": order, "backend": backend, "bmin": eng.fresh("bmin", "real"), "Lmin": eng.fresh("Lmin", "int"), "Jdes": eng.fresh("Jdes", "int"), "Kdes": eng.fresh("Kdes", "int"), "band": None, "force_target_nf": False, "psll": eng.fresh("psll", "real"), "N": nx}
    fields = {"fs": fs, "nx": nx, "x1": x1, "iscsd": bool(iscsd), "config": eng.alloc(st, DictV(cfg)), "verbose": False, "_plan_cache": None}
    if iscsd:
        fields["x2"] = x2
    ref = eng.alloc(st, ObjV("SpectrumAnalyzer", fields))
    eng.setvar(st, fid, "self", ref)
    genv.update(OLAP=olap)
    genv.update(nx=nx, fs=fs, alpha=alpha, REC1=st.heap[x1.loc], REC2=(st.heap[x2.loc] if iscsd else None), ORDER=order, ISCSD=bool(iscsd), BACKEND=backend, KAISER=kaiser)
    st.tags["analyzer"] = ref.loc
    st.tags["frozen"] = {"x1": x1.loc, "x2": x2.loc if iscsd else None, "config": fields["config"].loc}
    return ref


FAMILY = {-1: "win_only", 0: "detrend0", 1: "poly", 2: "poly"}

SB_ENS = {
    # --- the kernel that ran is the one for (order, mode) and for the selected backend ----------
    "C08.kernel_family_matches_order": "KCALL['family'] == FAMILYNAME and KCALL['mode'] == ('csd' if ISCSD else 'auto')",
    "C07.backend_as_selected": "implies(BACKEND != 'auto', KCALL['backend'] == BACKEND)",
    # --- its arguments are the ones the property names ----------------------------------------------
    "C05.record": "KCALL['x1'] is REC1 and (KCALL['x2'] is REC2 if ISCSD else True)",
    "C05.omega_from_frequency": "KCALL['omega'] == 2*pi*freq/fs",
    "C05.reported_segmentation_is_the_one_used": "KCALL['starts'] is result._data['D'][0] and result._data['L'][0] == KCALL['L'] and result._data['K'][0] == len(KCALL['starts']) and result._data['navg'][0] == len(KCALL['starts'])",
    "C05.window_of_the_configuration": "len(KCALL['w']) == KCALL['L'] and forall(0, KCALL['L'], lambda n: KCALL['w'][n] == WINSPEC(KCALL['L'], n))",
    "C08.basis_for_this_length_and_order": "(KCALL['Q'] is BUILDQ_RESULT and BUILDQ_ARGS == (KCALL['L'], ORDER)) if ORDER >= 1 else KCALL['Q'] is None",
    # --- reported statistics are the kernel's results, window sums are (sum w)^2 and sum w^2 ----------
    "C05.statistics_are_the_kernel_results": "result._data['XX'][0] == KCALL['ret'][0] and result._data['YY'][0] == KCALL['ret'][1] and result._data['XY'][0] == complex(KCALL['ret'][2], KCALL['ret'][3]) and result._data['M2'][0] == KCALL['ret'][4]",
    "C05.window_sums": "result._data['S12'][0] == Sum(0, len(KCALL['w']), lambda n: KCALL['w'][n])**2 and result._data['S2'][0] == Sum(0, len(KCALL['w']), lambda n: KCALL['w'][n]**2)",
    "C05.frequency_reported": "result._data['f'][0] == freq",
    # C14 / C02: the segmentation of a single-bin request is a function of the request (N, L, overlap) alone - the
    # nearest-integer number of segments, evenly spread - never of what was computed before on this analyzer
    "C14.segmentation_is_a_function_of_the_request": "len(KCALL['starts']) == (1 if nx == KCALL['L'] else max(1, rhu(((nx - KCALL['L']) / (1 - OLAP)) / KCALL['L'] + 1)))"
    " and forall(0, len(KCALL['starts']), lambda m: KCALL['starts'][m] == (0 if len(KCALL['starts']) == 1 else rhe(m * ((nx - KCALL['L']) / (len(KCALL['starts']) - 1)))))",
    "C14.analyzer_state_untouched": "ANALYZER_UNCHANGED",
}


def _install_cached_plan(eng, st, ref, genv):
    """history: a plan satisfying the plan() postconditions is already cached on the analyzer"""
    from pyvc import values as V
    from pyvc.heap import DictV, ObjV
    from pyvc.loops import fresh_list

    nf = eng.fresh("nf", "int")
    st.assume(V.cmp(">=", nf, 1))
    pd_ = {"nf": nf}
    for k_, ty_ in (("f", "real"), ("r", "real"), ("b", "real"), ("m", "real"), ("L", "int"), ("K", "int"), ("navg", "int"), ("O", "real")):
        pd_[k_] = eng.alloc(st, eng.fresh_array("plan_" + k_, (nf,), ty_))
    dl = fresh_list(eng, "plan_D", "list[list[int]]")
    st.assume(V.cmp("==", dl.n, nf))
    pd_["D"] = eng.alloc(st, dl)
    plan = eng.alloc(st, DictV(pd_))
    o = st.heap[ref.loc]
    flds = dict(o.fields)
    flds["_plan_cache"] = plan
    st.heap[ref.loc] = ObjV(o.cls, flds)
    st.tags["frozen"]["plan"] = plan.loc


def make_single_bin(iscsd, order, backend, kaiser=True, by_L=True, cached_plan=False):
    def setup(eng, st, fid, genv):
        from pyvc import values as V

        ref = build_analyzer(eng, st, fid, genv, iscsd, order, backend, kaiser)
        if cached_plan:
            _install_cached_plan(eng, st, ref, genv)
        genv["FAMILYNAME"] = FAMILY[order]
        freq = eng.fresh("freq", "real")
        st.assume(V.cmp(">=", freq, 0))
        eng.setvar(st, fid, "freq", freq)
        genv["freq"] = freq
        if by_L:
            L = eng.fresh("Lreq", "int")
            eng.setvar(st, fid, "L", L)
            eng.setvar(st, fid, "fres", None)
        else:
            fr = eng.fresh("fresreq", "real")
            eng.setvar(st, fid, "fres", fr)
            eng.setvar(st, fid, "L", None)

    tag = f"{'cross' if iscsd else 'auto'},order={order},{backend},{'kaiser' if kaiser else 'custom'},{'L' if by_L else 'fres'}" + (",plan-cached" if cached_plan else "")
    return Unit(
        id=f"analysis.SpectrumAnalyzer.compute_single_bin[{tag}]",
        module=M,
        func="SpectrumAnalyzer.compute_single_bin",
        props=["C05", "C07", "C08", "C12", "C14"],
        setup=setup,
        ensures=SB_ENS,
        raises={"ValueError": True, "RuntimeError": "BACKEND == 'cuda' or BACKEND == 'numba'"},
        post_hook=_analyzer_post,
        opts={"callee": False, "may_not_return": False, "ghost_defs": {"WINSPEC": "lambda L, n: KAISERWIN(L + 1, alpha * pi, n) if KAISER else CUSTOMWIN(L, n)"}},
    )


def _analyzer_post(eng, st, fid, res, entry):
    """C14: the analyzer's record, configuration and plan cache are not written by this call"""
    fz = st.tags.get("frozen", {})
    same = True
    for k, loc in fz.items():
        if loc is not None and st.heap.get(loc) is not entry.heap.get(loc):
            same = False
    a = st.tags.get("analyzer")
    if a is not None and st.heap[a] is not entry.heap[a]:
        fa, fb = st.heap[a].fields, entry.heap[a].fields
        if set(fa) != set(fb) or any(fa[k] is not fb[k] for k in fa if k != "_plan_cache"):
            same = False
    st.tags.setdefault("ghosts", {})["ANALYZER_UNCHANGED"] = same


for _iscsd in (False, True):
    for _order in (-1, 0, 1, 2):
        for _backend in ("numba", "numpy", "cuda"):
            UNITS.append(make_single_bin(_iscsd, _order, _backend))
UNITS.append(make_single_bin(True, 0, "auto"))
# call history: the same postconditions with a plan already cached on the analyzer (C14)
UNITS.append(make_single_bin(False, 0, "numpy", cached_plan=True))
UNITS.append(make_single_bin(True, 1, "numba", cached_plan=True))
UNITS.append(make_single_bin(False, 2, "auto", kaiser=False))
UNITS.append(make_single_bin(True, 1, "numba", by_L=False))
UNITS.append(make_single_bin(False, 0, "numpy", kaiser=False, by_L=False))


def install(eng):
    from pyvc.heap import Builtin, ArrV, ObjV, DictV, Ref
    from pyvc.values import Opaque, Sym, Unsupported
    from pyvc import values as V
    import z3

    if not hasattr(eng, "global_overrides"):
        eng.global_overrides = {}
    # availability of the optional back ends is an environment fact: any value
    eng.global_overrides[("speckit/core.py", "_CUDA_ENABLED")] = Sym(z3.Bool("env_cuda_enabled"), "bool")
    eng.global_overrides[("speckit/core.py", "_NUMBA_ENABLED")] = Sym(z3.Bool("env_numba_enabled"), "bool")
    eng.global_overrides[("speckit/core.py", "_CUDA_ERROR")] = None

    # ghost spec functions for windows
    def kaiserwin(eng_, st, M_, beta, n):
        f = eng_.uf("win_kaiser", z3.IntSort(), z3.RealSort(), z3.IntSort(), z3.RealSort())
        return Sym(f(V.int_term(M_), V.real_term(beta), V.int_term(n)), "real")

    def customwin_spec(eng_, st, L, n):
        f = eng_.uf("win_custom", z3.IntSort(), z3.IntSort(), z3.RealSort())
        return Sym(f(V.int_term(L), V.int_term(n)), "real")

    eng.builtins["KAISERWIN"] = Builtin("KAISERWIN", kaiserwin, True)
    eng.builtins["CUSTOMWIN"] = Builtin("CUSTOMWIN", customwin_spec, True)

    def customwin(eng_, st, fn, args, kwargs, line):
        L = eng_.deref(st, args[0])
        f = eng_.uf("win_custom", z3.IntSort(), z3.IntSort(), z3.RealSort())
        eng_.trusted.add("a user window callable win(L) is a deterministic function of L returning L samples")
        return eng_.alloc(st, ArrV((L,), lambda ix: Sym(f(V.int_term(L), V.int_term(ix[0])), "real"), "real"))

    eng.call_hooks["customwin"] = customwin

    # kernels: record the call (ghost KCALL) in addition to their contracts
    for kname, (backend, fam, mode) in KERNELS.items():
        modrel = "speckit/core_cuda.py" if backend == "cuda" else "speckit/core.py"
        u = eng.contracts.get(f"{modrel}:{kname}")
        if u is None:
            continue

        def call_post(eng_, st, fid, res, kname=kname, backend=backend, fam=fam, mode=mode, prev=u.call_post):
            if prev:
                prev(eng_, st, fid, res)
            fr = st.frames[fid]["vars"]
            rec = {"name": kname, "backend": backend, "family": fam, "mode": mode, "ret": res, "L": fr.get("L"), "omega": fr.get("omega"), "Q": fr.get("Q")}
            rec["x1"] = eng_.deref(st, fr.get("x1", fr.get("x")))
            rec["x2"] = eng_.deref(st, fr["x2"]) if "x2" in fr else None
            rec["starts"] = eng_.deref(st, fr["starts"])
            rec["w"] = eng_.deref(st, fr["w"])
            rec["Q"] = eng_.deref(st, fr["Q"]) if "Q" in fr else None
            from pyvc.heap import DictV as _D

            eng_.set_ghost("KCALL", _D(rec), st)
            calls = list(st.tags.get("kcalls", []))
            calls.append(rec)
            st.tags["kcalls"] = calls

        u.call_post = call_post

    # SpectrumResult(results_dict, config, iscsd, fs): the object built from these (the normalisation
    # in SpectrumResult.__init__ is value preserving; it has its own unit)
    def mk_result(eng_, st, fn, args, kwargs, line):
        d, cfg, iscsd, fs = args
        return eng_.alloc(st, ObjV("SpectrumResult", {"_data": d, "_config": cfg, "iscsd": iscsd, "fs": fs, "_cache": eng_.alloc(st, DictV({}))}))

    eng.call_hooks["class:speckit/analysis.py:SpectrumResult"] = mk_result

    # np.array([starts], dtype=object): object array holding the given arrays (shape rule: C20)
    def object_array(eng_, st, x, xd):
        from pyvc.heap import ListV

        if isinstance(xd, ListV) and xd.concrete():
            items = [eng_.deref(st, i) for i in xd.items]
            a = ArrV((len(items),), lambda ix: items[ix[0]] if isinstance(ix[0], int) else items[0], "obj")
            a.items = items
            return eng_.alloc(st, a)
        if isinstance(xd, ListV):
            # symbolic length: one object entry per element (ragged rows; the equal-length case gives a 2-D object
            # array whose rows are the same entries - C20's export shape rule is checked at run time)
            lv = xd
            return eng_.alloc(st, ArrV((lv.n,), lambda ix, lv=lv: lv.get(ix[0]), "obj"))
        if isinstance(xd, ArrV) and xd.dtype == "obj":
            return eng_.alloc(st, ArrV(xd.shape, xd.fn, "obj"))
        raise Unsupported("object array of symbolic length")

    eng.object_array_hook = object_array


# ---- core._build_Q ------------------------------------------------------------------------------------


def _buildq_returns(eng, st, name, fid):
    import z3
    from pyvc.heap import ArrV
    from pyvc.values import Sym
    from pyvc import values as V

    L = eng.lookup(st, fid, "L")
    order = eng.lookup(st, fid, "order")
    f = eng.uf("buildQ", z3.IntSort(), z3.IntSort(), z3.IntSort(), z3.IntSort(), z3.RealSort())
    a = ArrV((L, V.add(order, 1)), lambda ix: Sym(f(V.int_term(L), V.int_term(order), V.int_term(ix[0]), V.int_term(ix[1])), "real"), "real")
    return eng.alloc(st, a)


def _buildq_call_post(eng, st, fid, res):
    eng.set_ghost("BUILDQ_RESULT", eng.deref(st, res), st)
    eng.set_ghost("BUILDQ_ARGS", (eng.lookup(st, fid, "L"), eng.lookup(st, fid, "order")), st)


_BQ_GD = {"TLIN": "lambda n: ite(L == 1, -1, -1 + n * (2 / (L - 1)))"}
UNITS.append(
    Unit(
        id="core._build_Q",
        module="speckit/core.py",
        func="_build_Q",
        props=[],
        params={"L": "int", "order": "int"},
        requires=["L >= 1"],
        raises={"ValueError": "order != 1 and order != 2"},
        returns=_buildq_returns,
        call_post=_buildq_call_post,
        ensures={"shape": "result.shape[0] == L and result.shape[1] == order + 1"},
        opts={"callee": True},
    )
)
for _o in (1, 2):
    UNITS.append(
        Unit(
            id=f"core._build_Q[order={_o}]",
            module="speckit/core.py",
            func="_build_Q",
            props=["C01", "C08", "C05"],
            params={"L": "int", "order": ("const", _o)},
            requires=["L >= 1"],
            ensures={
                # the returned basis is the Q factor of the reduced QR of the centred Vandermonde matrix 1, t(, t^2)
                "columns_are_powers_of_t": "forall(0, L, lambda n: QR_INPUT[n, 0] == 1 and QR_INPUT[n, 1] == TLIN(n)" + (" and QR_INPUT[n, 2] == TLIN(n) * TLIN(n))" if _o == 2 else ")"),
                "number_of_columns": f"QR_INPUT.shape[1] == {_o + 1} and QR_INPUT.shape[0] == L",
                "returns_the_q_factor": f"forall(0, L, lambda n: forall(0, {_o + 1}, lambda c: result[n, c] == QR_Q[n, c]))",
                "shape": f"result.shape[0] == L and result.shape[1] == {_o + 1}",
            },
            opts={"callee": False, "ghost_defs": _BQ_GD},
        )
    )
UNITS.append(
    Unit(
        id="core._build_Q[other-orders]",
        module="speckit/core.py",
        func="_build_Q",
        props=["C08"],
        params={"L": "int", "order": "int"},
        requires=["L >= 1", "order != 1", "order != 2"],
        ensures={"never_returns": "False"},
        raises={"ValueError": True},
        opts={"callee": False, "may_not_return": True},
    )
)

_install_ac = install


def install(eng):  # noqa: F811
    _install_ac(eng)
    from pyvc.heap import Builtin, ArrV
    from pyvc.values import Sym
    from pyvc import values as V

    la = eng.builtins["__modules__"]["numpy"].attrs["linalg"]

    def qr(eng_, st, Vm, mode="reduced"):
        vd = eng_.deref(st, Vm)
        L, p = vd.shape
        fq = eng_.fresh_fn("qrQ", 2, "real")
        fr = eng_.fresh_fn("qrR", 2, "real")
        Q = ArrV((L, p), lambda ix: Sym(fq(V.int_term(ix[0]), V.int_term(ix[1])), "real"), "real")
        R = ArrV((p, p), lambda ix: Sym(fr(V.int_term(ix[0]), V.int_term(ix[1])), "real"), "real")
        eng_.set_ghost("QR_INPUT", vd)
        eng_.set_ghost("QR_Q", Q)
        eng_.trusted.add("np.linalg.qr(V, mode='reduced'): Q has orthonormal columns spanning range(V) (assumed; bounded monitor in the thorough tier)")
        return (eng_.alloc(st, Q), eng_.alloc(st, R))

    la.attrs["qr"] = Builtin("numpy.linalg.qr", qr, True)


# ---- _lpsd_core: per-bin dispatch with a per-L window cache and a per-(L,order) basis cache ------------


def _name_of(st, ref):
    for fr in st.frames.values():
        for k, v in fr["vars"].items():
            if hasattr(v, "loc") and v.loc == ref.loc and not k.startswith(("pre_", "old_")):
                return k
    return None


def _win_value(eng, st, key):
    """cache invariant: window_cache[L] == (WIN(L), sum WIN(L), sum WIN(L)^2)"""
    from pyvc.heap import ArrV
    from pyvc import values as V
    from pyvc.contract import eval_text

    import z3
    from pyvc.values import Sym
    from pyvc import spec as S

    fid = st.tags["core_fid"]
    g = st.tags["wincfg"]
    if g["kaiser"]:
        f = eng.uf("win_kaiser", z3.IntSort(), z3.RealSort(), z3.IntSort(), z3.RealSort())
        beta = V.real_term(V.mul(g["alpha"], S.PI(eng)))
        fn = lambda ix: Sym(f(V.int_term(V.add(key, 1)), beta, V.int_term(ix[0])), "real")
    else:
        f = eng.uf("win_custom", z3.IntSort(), z3.IntSort(), z3.RealSort())
        fn = lambda ix: Sym(f(V.int_term(key), V.int_term(ix[0])), "real")
    w = ArrV((key,), fn, "real")
    s1 = eval_text(eng, st, fid, "Sum(0, KEY, lambda n: W_[n])", {"KEY": key, "W_": w})
    s2 = eval_text(eng, st, fid, "Sum(0, KEY, lambda n: W_[n]**2)", {"KEY": key, "W_": w})
    return (eng.alloc(st, w), s1, s2)


def _win_store(eng, st, key, v):
    from pyvc.contract import eval_text

    fid = st.tags["core_fid"]
    w, s1, s2 = v
    env = {"KEY": key, "W_": eng.deref(st, w), "S1_": s1, "S2_": s2}
    eng.oblige(st, "inv_step", "window_cache.keyed_by_length", eng.truthy(st, eval_text(eng, st, fid, "len(W_) == KEY", env)))
    eng.oblige(st, "inv_step", "window_cache.holds_window_of_that_length", eng.truthy(st, eval_text(eng, st, fid, "forall(0, KEY, lambda n: W_[n] == WINSPEC(KEY, n))", env)))
    eng.oblige(st, "inv_step", "window_cache.holds_its_sums", eng.truthy(st, eval_text(eng, st, fid, "S1_ == Sum(0, KEY, lambda n: W_[n]) and S2_ == Sum(0, KEY, lambda n: W_[n]**2)", env)))


def _q_value(eng, st, key):
    """cache invariant: Q_cache[(L, order)] == _build_Q(L, order)"""
    import z3
    from pyvc.heap import ArrV
    from pyvc.values import Sym, Unsupported
    from pyvc import values as V

    if not (isinstance(key, tuple) and len(key) == 2):
        raise Unsupported("Q cache key is not (L, order): the cached basis is not determined by its key")
    L, order = key
    f = eng.uf("buildQ", z3.IntSort(), z3.IntSort(), z3.IntSort(), z3.IntSort(), z3.RealSort())
    a = ArrV((L, V.add(order, 1)), lambda ix: Sym(f(V.int_term(L), V.int_term(order), V.int_term(ix[0]), V.int_term(ix[1])), "real"), "real")
    eng.set_ghost("BUILDQ_RESULT", a, st)
    eng.set_ghost("BUILDQ_ARGS", (L, order), st)
    return eng.alloc(st, a)


def _q_store(eng, st, key, v):
    g = st.tags.get("ghosts", {})
    ok = isinstance(key, tuple) and len(key) == 2 and eng.deref(st, v) is g.get("BUILDQ_RESULT")
    args_ok = eng.truthy(st, eng.compare(st, __import__("ast").Eq(), key, g.get("BUILDQ_ARGS"))) if ok else False
    eng.oblige(st, "inv_step", "Q_cache.keyed_by_length_and_order", args_ok)


CACHES = {"window_cache": (_win_value, _win_store), "Q_cache": (_q_value, _q_store)}

CORE_STEP = {
    "C08.kernel_family_matches_order": "KCALL['family'] == FAMILYNAME and KCALL['mode'] == ('csd' if ISCSD else 'auto')",
    "C07.backend_as_selected": "implies(BACKEND != 'auto', KCALL['backend'] == BACKEND)",
    "C05.record": "KCALL['x1'] is REC1 and (KCALL['x2'] is REC2 if ISCSD else True)",
    "C05.omega_from_frequency_of_this_bin": "KCALL['omega'] == 2*pi*PLAN_f[i]/fs",
    "C05.segmentation_of_this_bin": "KCALL['starts'] is PLAN_D[i] and KCALL['L'] == PLAN_L[i]",
    "C05.window_of_the_configuration": "len(KCALL['w']) == KCALL['L'] and forall(0, KCALL['L'], lambda n: KCALL['w'][n] == WINSPEC(KCALL['L'], n))",
    "C08.basis_for_this_length_and_order": "(KCALL['Q'] is BUILDQ_RESULT and BUILDQ_ARGS == (KCALL['L'], ORDER)) if ORDER >= 1 else KCALL['Q'] is None",
    "C05.row_holds_bin_index_and_kernel_results": "ROW[0] == i and ROW[1] == complex(KCALL['ret'][2], KCALL['ret'][3]) and ROW[2] == KCALL['ret'][0] and ROW[3] == KCALL['ret'][1] and ROW[6] == KCALL['ret'][4]",
    "C05.row_holds_window_sums": "ROW[4] == Sum(0, len(KCALL['w']), lambda n: KCALL['w'][n])**2 and ROW[5] == Sum(0, len(KCALL['w']), lambda n: KCALL['w'][n]**2)",
}


def make_core(iscsd, order, backend, kaiser=True):
    def setup(eng, st, fid, genv):
        import z3
        from pyvc import values as V
        from pyvc.heap import DictV, ListV, ArrV
        from pyvc.values import Sym

        ref = build_analyzer(eng, st, fid, genv, iscsd, order, backend, kaiser)
        genv["FAMILYNAME"] = FAMILY[order]
        nf = eng.fresh("nf", "int")
        st.assume(V.cmp(">=", nf, 1))
        nx = genv["nx"]
        pf = eng.fresh_array("plan_f", (nf,), "real")
        pL = eng.fresh_array("plan_L", (nf,), "int")
        dlen = eng.fresh_fn("plan_Dlen", 1, "int")
        del_ = eng.fresh_fn("plan_D", 2, "int")
        cache = {}

        def dget(i):
            k = V.term(i).get_id() if not isinstance(i, int) else i
            if k not in cache:
                ii = V.int_term(i)
                cache[k] = ArrV((Sym(dlen(ii), "int"),), lambda ix, ii=ii: Sym(del_(ii, V.int_term(ix[0])), "int"), "int")
            return cache[k]

        pD = ListV(n=nf, fn=dget, etype="arr")
        pd_ = {"f": eng.alloc(st, pf), "L": eng.alloc(st, pL), "D": eng.alloc(st, pD), "nf": nf}
        for k_, ty_ in (("r", "real"), ("b", "real"), ("m", "real"), ("K", "int"), ("navg", "int"), ("O", "real")):
            pd_[k_] = eng.alloc(st, eng.fresh_array("plan_" + k_, (nf,), ty_))
        plan = eng.alloc(st, DictV(pd_))
        o = st.heap[ref.loc]
        flds = dict(o.fields)
        flds["_plan_cache"] = plan
        from pyvc.heap import ObjV

        st.heap[ref.loc] = ObjV(o.cls, flds)
        # PlanOK (established by plan(), contracts/schedulers.py + plan validation): per bin
        q = z3.Int("pq")
        k = z3.Int("pk")
        st.fact(z3.ForAll([q], z3.Implies(z3.And(q >= 0, q < V.int_term(nf)), z3.And(pL.uf(q) >= 1, pL.uf(q) <= V.int_term(nx), dlen(q) >= 1))))
        st.fact(z3.ForAll([q, k], z3.Implies(z3.And(q >= 0, q < V.int_term(nf), k >= 0, k < dlen(q)), z3.And(del_(q, k) >= 0, del_(q, k) + pL.uf(q) <= V.int_term(nx)))))
        m = eng.fresh("m", "int")
        st.assume(V.cmp(">=", m, 0))
        fi = eng.fresh_array("f_indices", (m,), "int")
        st.fact(z3.ForAll([q], z3.Implies(z3.And(q >= 0, q < V.int_term(m)), z3.And(fi.uf(q) >= 0, fi.uf(q) < V.int_term(nf)))))
        eng.setvar(st, fid, "f_indices", eng.alloc(st, fi))
        genv.update(PLAN_f=pf, PLAN_L=pL, PLAN_D=pD, nf=nf, m=m)
        st.tags["core_fid"] = fid
        st.tags["wincfg"] = {"kaiser": kaiser, "alpha": genv["alpha"]}
        st.tags["frozen"]["plan"] = plan.loc

    tag = f"{'cross' if iscsd else 'auto'},order={order},{backend},{'kaiser' if kaiser else 'custom'}"
    return Unit(
        id=f"analysis.SpectrumAnalyzer._lpsd_core[{tag}]",
        module=M,
        func="SpectrumAnalyzer._lpsd_core",
        props=["C05", "C07", "C08", "C12", "C14"],
        setup=setup,
        loops={
            "0": dict(
                label="bins",
                types={"results_block": "list[row]"},
                inv={"one_row_per_index": "len(results_block) == _i", "row_index": "forall(0, _i, lambda q: results_block[q][0] == f_indices[q])"},
                step_lemmas=CORE_STEP,
                step_env={"ROW": "results_block[len(results_block) - 1]"},
            )
        },
        ensures={"one_row_per_requested_bin": "len(result) == m", "rows_in_request_order": "forall(0, m, lambda q: result[q][0] == f_indices[q])", "C14.analyzer_state_untouched": "ANALYZER_UNCHANGED"},
        raises={"RuntimeError": "self.config['backend'] == 'cuda' or self.config['backend'] == 'numba'"},
        post_hook=_analyzer_post,
        opts={"callee": False, "ghost_defs": {"WINSPEC": "lambda L, n: KAISERWIN(L + 1, alpha * pi, n) if KAISER else CUSTOMWIN(L, n)"}},
    )


for _iscsd in (False, True):
    for _order in (-1, 0, 1, 2):
        for _backend in ("numba", "numpy", "cuda"):
            UNITS.append(make_core(_iscsd, _order, _backend))
UNITS.append(make_core(True, 0, "auto"))
UNITS.append(make_core(False, 1, "auto", kaiser=False))

_install_ac2 = install


def install(eng):  # noqa: F811
    _install_ac2(eng)
    from pyvc.heap import Ref, DictV
    from pyvc.engine import _Forked
    from pyvc import values as V

    prev_c = getattr(eng, "dict_contains_hook", None)
    prev_g = getattr(eng, "dict_get_hook", None)
    prev_w = getattr(eng, "dict_write_hook", None)

    def cache_name(st, container):
        if "core_fid" not in st.tags or not isinstance(container, Ref):
            return None
        nm = _name_of(st, container)
        return nm if nm in CACHES else None

    def contains(eng_, st, container, c, x):
        real = eng_.cur_state
        nm = cache_name(real, container)
        if nm:
            return eng_.fresh(nm + ".hit", "bool")
        return prev_c(eng_, st, container, c, x) if prev_c else None

    def get(eng_, st, base, obj, idx, default=None, is_get=False):
        real = eng_.cur_state
        nm = cache_name(real, base)
        if nm:
            if is_get:
                miss = real.copy()
                hit = real
                return _Forked([(miss, default), (hit, CACHES[nm][0](eng_, hit, idx))])
            return CACHES[nm][0](eng_, real, idx)
        return prev_g(eng_, st, base, obj, idx, default=default, is_get=is_get) if prev_g else None

    def write(eng_, st, base, key, v):
        real = eng_.cur_state
        nm = cache_name(real, base)
        if nm:
            CACHES[nm][1](eng_, real, getattr(eng_, "_last_raw_key", key), v)
        if prev_w:
            prev_w(eng_, st, base, key, v)

    eng.dict_contains_hook = contains
    eng.dict_get_hook = get
    eng.dict_write_hook = write


# ------------------------------------------------------------------------- bounded stand-ins
# (end-to-end run-time checks against an independent direct computation; labelled bounded)


def _reference_bin(x, y, fs, f, L, D, w, order):
    import numpy as np

    n = np.arange(L)
    e = np.exp(-2j * np.pi * f / fs * n)
    t = np.linspace(-1, 1, L) if L > 1 else np.zeros(1)

    def prep(seg):
        if order == 0:
            seg = seg - seg.mean()
        elif order >= 1:
            deg = min(order, L - 1)
            seg = seg - np.polynomial.polynomial.polyval(t, np.polynomial.polynomial.polyfit(t, seg, deg))
        return np.sum(seg * w * e)

    X = np.array([prep(x[s : s + L]) for s in D])
    Y = X if y is None else np.array([prep(y[s : s + L]) for s in D])
    Z = X * np.conj(Y)
    mu = Z.mean()
    return np.mean(np.abs(X) ** 2), np.mean(np.abs(Y) ** 2), mu, (np.mean(np.abs(Z - mu) ** 2) if len(D) >= 2 else 0.0)


def bounded_reference(tier, seed):
    import numpy as np
    from speckit import SpectrumAnalyzer
    from speckit.utils import kaiser_alpha

    rng = np.random.default_rng(seed)
    fails, n = [], 0
    N = 1500
    t = np.arange(N)
    x = rng.normal(size=N) + 2.0 + 0.01 * t + 2e-5 * t * t
    y = 0.7 * np.roll(x, 3) + rng.normal(size=N) - 1.0 + 0.02 * t
    cfgs = []
    for sched in ("ltf", "lpsd", "vectorized_ltf"):
        for order in (-1, 0, 1, 2):
            for backend in ("numba", "numpy"):
                cfgs.append((sched, order, backend, "kaiser", 120.0))
    cfgs += [("ltf", 0, "numba", "hann", None), ("ltf", 2, "numpy", "hann", None), ("new_ltf", 0, "numba", "kaiser", 200.0)]
    if tier == "quick":
        cfgs = cfgs[::3] + cfgs[-3:]
    for sched, order, backend, win, psll in cfgs:
        for cross in (False, True):
            data = [x, y] if cross else x
            kw = dict(olap=0.5, bmin=2.5, Lmin=20, Jdes=25, Kdes=12, order=order, win=win, scheduler=sched, backend=backend)
            if psll:
                kw["psll"] = psll
            an = SpectrumAnalyzer(data, 10.0, **kw)
            res = an.compute()
            sel = sorted(set([0, 1, 2, len(res.f) // 2, len(res.f) - 2, len(res.f) - 1]) & set(range(len(res.f))))
            for j in sel:
                n += 1
                L, D, f = int(res.L[j]), np.asarray(res.D[j]), float(res.f[j])
                w = np.kaiser(L + 1, kaiser_alpha(psll) * np.pi)[:-1] if win == "kaiser" else np.hanning(L)
                rxx, ryy, rxy, rm2 = _reference_bin(x, y if cross else None, 10.0, f, L, D, w, order)
                sc = max(rxx, ryy, 1e-30)
                bad = abs(res.XX[j] - rxx) > 1e-6 * sc or abs(res.S12[j] - w.sum() ** 2) > 1e-9 * w.sum() ** 2 or abs(res.S2[j] - (w * w).sum()) > 1e-9 * (w * w).sum()
                if cross:
                    bad = bad or abs(res.YY[j] - ryy) > 1e-6 * sc or abs(res.XY[j] - rxy) > 1e-6 * sc or abs(res.M2[j] - rm2) > 1e-6 * sc * sc
                if bad:
                    fails.append({"label": "C05.reference_estimator", "input": {"scheduler": sched, "order": order, "backend": backend, "win": win, "cross": cross, "bin": int(j), "L": L}, "detail": f"XX={res.XX[j]!r} reference={rxx!r}" + (f" XY={res.XY[j]!r} reference={rxy!r}" if cross else "")})
                    break
            # single-bin analysis reports the segmentation it used and agrees with the reference for it
            j = sel[len(sel) // 2]
            sb = an.compute_single_bin(float(res.f[j]), L=int(res.L[j]))
            n += 1
            L, D, f = int(sb.L[0]), np.asarray(sb.D[0]), float(sb.f[0])
            w = np.kaiser(L + 1, kaiser_alpha(psll) * np.pi)[:-1] if win == "kaiser" else np.hanning(L)
            rxx, ryy, rxy, rm2 = _reference_bin(x, y if cross else None, 10.0, f, L, D, w, order)
            if abs(sb.XX[0] - rxx) > 1e-6 * max(rxx, 1e-30) or (cross and abs(sb.XY[0] - rxy) > 1e-6 * max(rxx, ryy)):
                fails.append({"label": "C05.single_bin", "input": {"scheduler": sched, "order": order, "backend": backend, "cross": cross, "L": L}, "detail": "single-bin result differs from the reference estimator for the reported segmentation"})
            # C14: repeating / interleaving does not change the numbers
            for jj in sel[:: max(1, len(sel) // 6)]:
                # single-bin requests for plan lengths, before (fresh analyzer) and after the full analysis
                fresh_an = SpectrumAnalyzer([x, y] if cross else x, 10.0, olap=0.5, bmin=2.5, Lmin=20, Jdes=25, Kdes=12, order=order, win=win, scheduler=sched, backend=backend, **({"psll": psll} if psll else {}))
                b0 = fresh_an.compute_single_bin(float(res.f[jj]), L=int(res.L[jj]))
                b1 = an.compute_single_bin(float(res.f[jj]), L=int(res.L[jj]))
                n += 1
                if not (np.array_equal(b0.XX, b1.XX) and np.array_equal(b0.XY, b1.XY) and np.array_equal(np.asarray(b0.D[0]), np.asarray(b1.D[0]))):
                    fails.append({"label": "C14.interleaved", "input": {"scheduler": sched, "order": order, "backend": backend, "cross": cross, "L": int(res.L[jj])}, "detail": "compute_single_bin after compute() differs from the same request on a fresh analyzer"})
                    break
            res2 = an.compute()
            n += 1
            if not (np.array_equal(res.XX, res2.XX) and np.array_equal(res.XY, res2.XY)):
                fails.append({"label": "C14.repeatable", "input": {"scheduler": sched, "order": order, "backend": backend, "cross": cross}, "detail": "compute() after compute_single_bin()/compute() differs from the first compute()"})
        # band restriction == in-band bins of the unrestricted analysis
        full = SpectrumAnalyzer(x, 10.0, olap=0.5, bmin=2.5, Lmin=20, Jdes=25, Kdes=12, order=order, win=win, scheduler=sched, backend=backend, **({"psll": psll} if psll else {})).compute()
        lo, hi = float(full.f[len(full.f) // 4]), float(full.f[3 * len(full.f) // 4])
        try:
            bnd = SpectrumAnalyzer(x, 10.0, olap=0.5, bmin=2.5, Lmin=20, Jdes=25, Kdes=12, order=order, win=win, scheduler=sched, backend=backend, band=(lo, hi), **({"psll": psll} if psll else {})).compute()
            mask = (full.f >= lo) & (full.f <= hi)
            n += 1
            if not (np.array_equal(bnd.f, full.f[mask]) and np.allclose(bnd.XX, full.XX[mask], rtol=1e-12) and np.array_equal(bnd.L, full.L[mask]) and all(np.array_equal(a, b) for a, b in zip(bnd.D, [d for d, k in zip(full.D, mask) if k]))):
                fails.append({"label": "C05.band", "input": {"scheduler": sched, "order": order}, "detail": "band-restricted analysis differs from the in-band bins of the unrestricted one"})
        except Exception as e:
            fails.append({"label": "C05.band", "input": {"scheduler": sched, "order": order}, "detail": "band-restricted analysis raised " + repr(e)[:100]})
    # C08 history: analyses with different orders in one process share nothing
    r2a = SpectrumAnalyzer(x, 10.0, olap=0.5, Jdes=20, Kdes=10, order=2, win="hann", scheduler="ltf").compute().XX.copy()
    SpectrumAnalyzer(x, 10.0, olap=0.5, Jdes=20, Kdes=10, order=1, win="hann", scheduler="ltf").compute()
    r2b = SpectrumAnalyzer(x, 10.0, olap=0.5, Jdes=20, Kdes=10, order=2, win="hann", scheduler="ltf").compute().XX
    n += 1
    if not np.array_equal(r2a, r2b):
        fails.append({"label": "C08.history_independent", "input": {}, "detail": "an order-2 analysis changes after an order-1 analysis ran in the same process"})
    return {"evaluations": n, "bound": f"{len(cfgs)} configurations x auto/cross, <= 6 bins each, N=1500", "failures": fails[:5], "n_failures": len(fails)}


def bounded_gain_delay_trend(tier, seed):
    """C07 (gain / delay sign on every backend) and C08 (polynomial trends of degree <= p are removed, degree p+1 is not)"""
    import numpy as np
    from speckit import SpectrumAnalyzer

    rng = np.random.default_rng(seed)
    fails, n = [], 0
    N = 4000
    x = rng.normal(size=N)
    tt = np.arange(N) / N
    for backend in ("numba", "numpy"):
        for order in (-1, 0, 1, 2):
            for g, amp in ((3.0, 1.0), (-0.25, 1.0), (-2.5, 1e-9), (0.5, 1e6)):
                # (the statement is for every record: also very small and very large units)
                n += 1
                r = SpectrumAnalyzer([amp * (x + 0.5), g * amp * (x + 0.5)], 10.0, olap=0.5, Lmin=200, Jdes=20, Kdes=10, order=order, win="hann", scheduler="ltf", backend=backend).compute()
                if np.max(np.abs(r.Hxy - g)) > 1e-6 * abs(g) or np.max(np.abs(r.coh - 1)) > 1e-6:
                    fails.append({"label": "C07.gain", "input": {"backend": backend, "order": order, "g": g, "amplitude": amp}, "detail": f"max|Hxy-g|={np.max(np.abs(r.Hxy - g)):.3g}, max|coh-1|={np.max(np.abs(r.coh - 1)):.3g}"})
            d = 2
            n += 1
            r = SpectrumAnalyzer([x, np.roll(x, d)], 10.0, olap=0.5, Lmin=400, Jdes=20, Kdes=10, order=order, win="hann", scheduler="ltf", backend=backend).compute()
            ph = np.angle(r.Hxy * np.exp(2j * np.pi * r.f * d / 10.0))
            if np.max(np.abs(ph)) > 0.3 or np.max(np.abs(np.abs(r.Hxy) - 1)) > 0.2:
                fails.append({"label": "C07.delay_sign", "input": {"backend": backend, "order": order, "delay": d}, "detail": f"phase differs from -2 pi f d/fs by up to {np.max(np.abs(ph)):.3g} rad"})
            for cross in (False, True):
                if order < 0:
                    continue
                n += 1
                base = SpectrumAnalyzer([x, x[::-1].copy()] if cross else x, 10.0, olap=0.5, Lmin=100, Jdes=15, Kdes=8, order=order, win="hann", scheduler="ltf", backend=backend).compute()
                trend = sum(rng.normal() * 1e3 * tt**k for k in range(order + 1))
                shifted = SpectrumAnalyzer([x + trend, x[::-1] + 2 * trend] if cross else x + trend, 10.0, olap=0.5, Lmin=100, Jdes=15, Kdes=8, order=order, win="hann", scheduler="ltf", backend=backend).compute()
                sc = 1e3 * float(np.sqrt(np.max(base.S12)))
                if np.max(np.abs(np.sqrt(shifted.XX) - np.sqrt(base.XX))) > 1e-6 * sc:
                    fails.append({"label": "C08.trend_removed", "input": {"backend": backend, "order": order, "cross": cross}, "detail": "adding a polynomial of degree <= order changed the estimate"})
                if order == 0 and not cross:
                    # a record whose global mean is (numerically) zero: the constant must still be invisible
                    x0 = x - np.mean(x)
                    ramp = np.linspace(-1.0, 1.0, N) + 0.01 * x0
                    ramp = ramp - np.mean(ramp)
                    for rec, cst in ((x0, 3.0), (ramp, 3.0), (1e-13 * x0, 5e-13)):
                        n += 1
                        a0 = SpectrumAnalyzer(rec, 10.0, olap=0.5, Lmin=100, Jdes=15, Kdes=8, order=0, win="hann", scheduler="ltf", backend=backend).compute()
                        a1 = SpectrumAnalyzer(rec + cst, 10.0, olap=0.5, Lmin=100, Jdes=15, Kdes=8, order=0, win="hann", scheduler="ltf", backend=backend).compute()
                        sc0 = cst * float(np.sqrt(np.max(a0.S12)))
                        if np.max(np.abs(np.sqrt(a1.XX) - np.sqrt(a0.XX))) > 1e-6 * sc0:
                            fails.append({"label": "C08.trend_removed", "input": {"backend": backend, "order": 0, "record": "zero-mean record", "constant": cst}, "detail": "adding a constant to a centred record changed the order-0 estimate"})
                hi = SpectrumAnalyzer(x + 1e3 * tt ** (order + 1), 10.0, olap=0.5, Lmin=100, Jdes=15, Kdes=8, order=order, win="hann", scheduler="ltf", backend=backend).compute()
                if not np.max(np.abs(hi.XX - base.XX) / base.XX) > 1.0:
                    fails.append({"label": "C08.higher_degree_not_removed", "input": {"backend": backend, "order": order}, "detail": "a trend of degree order+1 does not change the estimate"})
    return {"evaluations": n, "bound": "2 backends x 4 orders x {2 gains, 1 delay, trends auto/cross}, N=4000", "failures": fails[:5], "n_failures": len(fails)}


BOUNDED = {"C05.reference": bounded_reference, "C07C08.gain_delay_trend": bounded_gain_delay_trend}
_INFO = {
    "bounded": ["C05.reference"],
    "not_decided": ["per-row closed-form link between a row of _lpsd_core and the reference estimator is carried by call-site obligations (kernel arguments + kernel contracts), not by one quantified invariant over all rows"],
    "trusted": ["SpectrumResult(...) at the end of compute / compute_single_bin is modelled as the object holding the given dict; that __init__ preserves every value is proved under its own unit (analysis.SpectrumResult.__init__)"],
}
PROPERTY_INFO = {"C05": dict(_INFO), "C07": {"bounded": ["C07C08.gain_delay_trend"], "not_decided": ["delay clause (phase -2 pi f d/fs, magnitude 1 up to d/L): approximate edge-effect statement, bounded run-time check only"]}, "C08": {"bounded": ["C07C08.gain_delay_trend", "C05.reference"], "not_decided": ["span(Q) = polynomials of degree <= p rests on the assumed QR contract (range(Q) = range(V)); 'degree p+1 does change it' is existential: run-time witness"]}, "C14": {"bounded": ["C05.reference"]}, "C12": {"bounded": [], "not_decided": ["side-lobe level of np.kaiser itself (Bessel window, continuum of offsets): bounded grid only"]}}


# ---- SpectrumAnalyzer.__init__: sanitising, layouts, caller's buffer (C13) --------------------------------

for _m in ("_process_window_config", "_process_scheduler_config"):
    UNITS.append(Unit(id=f"analysis.SpectrumAnalyzer.{_m}[stub]", module=M, func=f"SpectrumAnalyzer.{_m}", props=[], params={}, returns="none", ensures={}, opts={"callee": True}))


def _init_setup(layout):
    def setup(eng, st, fid, genv):
        import z3
        from pyvc import values as V
        from pyvc.heap import ObjV, ArrV, ListV
        from pyvc.values import Sym

        N = eng.fresh("N", "int")
        st.assume(V.cmp(">=", N, 1))
        genv["N"] = N
        fin = {}

        def channel(nm):
            a = eng.fresh_array(nm, (N,), "real")
            f = eng.fresh_fn(nm + ".finite", 1, "bool")
            fin[a.uf.name()] = f
            return a, f

        c0, f0 = channel("ch0")
        st.tags["finite_fns"] = {}
        if layout == "1d":
            data = c0
            st.tags["finite_of"] = lambda ix: Sym(f0(V.int_term(ix[0])), "bool")
            caller = eng.alloc(st, data)
            genv.update(CH0=c0, CH1=None, FIN0=lambda i: Sym(f0(V.int_term(i)), "bool"))
        else:
            c1, f1 = channel("ch1")
            if layout == "2xN":
                data = ArrV((2, N), lambda ix: V.ite(V.cmp("==", ix[0], 0), c0.fn((ix[1],)), c1.fn((ix[1],))), "real")
                st.tags["finite_of"] = lambda ix: V.ite(V.cmp("==", ix[0], 0), Sym(f0(V.int_term(ix[1])), "bool"), Sym(f1(V.int_term(ix[1])), "bool"))
                caller = eng.alloc(st, data)
            elif layout == "Nx2":
                st.assume(V.cmp("!=", N, 2))
                data = ArrV((N, 2), lambda ix: V.ite(V.cmp("==", ix[1], 0), c0.fn((ix[0],)), c1.fn((ix[0],))), "real")
                st.tags["finite_of"] = lambda ix: V.ite(V.cmp("==", ix[1], 0), Sym(f0(V.int_term(ix[0])), "bool"), Sym(f1(V.int_term(ix[0])), "bool"))
                caller = eng.alloc(st, data)
            else:  # list of two channels
                a0, a1 = eng.alloc(st, c0), eng.alloc(st, c1)
                caller = eng.alloc(st, ListV(items=[a0, a1]))
                data = None
                st.tags["finite_of"] = None
                st.tags["finite_list"] = (c0, f0, c1, f1)
            genv.update(CH0=c0, CH1=c1)
        st.tags["caller_bufs"] = frozenset().union(*[a.bufs for a in ([c0] if layout == "1d" else [c0, c1])]) | (data.bufs if data is not None else frozenset())
        st.tags["caller_arrays"] = {c0.uf.name(): f0}
        if layout != "1d":
            st.tags["caller_arrays"][c1.uf.name()] = f1
        genv["FIN"] = {"0": f0}
        eng.setvar(st, fid, "data", caller)
        eng.setvar(st, fid, "self", eng.alloc(st, ObjV("SpectrumAnalyzer", {})))
        fsv = eng.fresh("fs", "real")
        st.assume(V.cmp(">", fsv, 0))
        eng.setvar(st, fid, "fs", fsv)
        eng.setvar(st, fid, "order", 0)
        st.tags["init_layout"] = layout
        st.tags["fin0"], st.tags["fin1"] = f0, (None if layout == "1d" else f1)

    return setup


INIT_ENS_1 = {
    "C13.stored_record_is_zero_filled_input": "forall(0, N, lambda n: self.x1[n] == ite(FINITE0(n), CH0[n], 0))",
    "C13.length": "self.nx == N and self.iscsd == False",
}
INIT_ENS_2 = {
    "C13.stored_record_is_zero_filled_input": "forall(0, N, lambda n: self.x1[n] == ite(FINITE0(n), CH0[n], 0) and self.x2[n] == ite(FINITE1(n), CH1[n], 0))",
    "C13.length": "self.nx == N and self.iscsd == True",
}
for _lay in ("1d", "2xN", "Nx2", "list"):
    UNITS.append(
        Unit(
            id=f"analysis.SpectrumAnalyzer.__init__[{_lay}]",
            module=M,
            func="SpectrumAnalyzer.__init__",
            props=["C13"],
            setup=_init_setup(_lay),
            ensures=dict(INIT_ENS_1 if _lay == "1d" else INIT_ENS_2),
            opts={"callee": False},
        )
    )

_install_ac3 = install


def install(eng):  # noqa: F811
    _install_ac3(eng)
    from pyvc.heap import Builtin, ArrV, Ref
    from pyvc.values import Sym
    from pyvc import values as V
    import z3

    def fin_of_value(st, e):
        """finite flag of a sample that is (syntactically) an element of a caller array"""
        fns = st.tags.get("caller_arrays")
        if not fns or not isinstance(e, Sym):
            return None
        t = e.t
        # element terms are ch(i) or ite(..., ch0(i), ch1(i))
        def go(t):
            if z3.is_app(t) and t.decl().kind() == z3.Z3_OP_UNINTERPRETED and t.decl().name() in fns:
                return fns[t.decl().name()](t.arg(0))
            if z3.is_app(t) and t.decl().kind() == z3.Z3_OP_ITE:
                a, b = go(t.arg(1)), go(t.arg(2))
                if a is not None and b is not None:
                    return z3.If(t.arg(0), a, b)
            if z3.is_rational_value(t) or z3.is_int_value(t):
                return z3.BoolVal(True)
            return None

        r = go(t)
        return None if r is None else Sym(r, "bool")

    def isfinite_hook(eng_, st, e):
        real = eng_.cur_state
        r = fin_of_value(real, e)
        return True if r is None else r

    eng.isfinite_hook = isfinite_hook

    def nan_to_num_hook(eng_, st, x, xd, copy, nan, posinf, neginf):
        real = eng_.cur_state
        if "caller_arrays" not in real.tags or not isinstance(xd, ArrV):
            return None

        def z(e):
            f = fin_of_value(real, e)
            return e if f is None else V.ite(f, e, 0)

        new = ArrV(xd.shape, lambda ix: z(xd.fn(ix)), xd.dtype)
        if eng_.truthy(real, copy) is False and isinstance(x, Ref):
            # in-place: the buffer is written; it must not be (an alias of) the caller's array
            eng_.frame_write(real, x, "nan_to_num")
            new.bufs = xd.bufs
            real.heap[x.loc] = new
            return x
        return eng_.alloc(real, new)

    eng.nan_to_num_hook = nan_to_num_hook
    prev_fc = getattr(eng, "frame_checker", None)

    def frame_checker(eng_, st, ref, label):
        cb = st.tags.get("caller_bufs")
        if cb is not None:
            obj = st.heap[ref.loc]
            if isinstance(obj, ArrV) and (obj.bufs & cb):
                eng_.oblige(st, "frame", f"C13.caller_array_not_written:{label}", False)
        if prev_fc:
            prev_fc(eng_, st, ref, label)

    eng.frame_checker = frame_checker
    eng.builtins["FINITE0"] = Builtin("FINITE0", lambda eng_, st, n: Sym(eng_.cur_state.tags["fin0"](V.int_term(n)), "bool"), True)
    eng.builtins["FINITE1"] = Builtin("FINITE1", lambda eng_, st, n: Sym(eng_.cur_state.tags["fin1"](V.int_term(n)), "bool"), True)


def bounded_inputs(tier, seed):
    """C13 stand-in (bounded): non-finite samples == zero-filled record, caller's array untouched (also when it
    is already float64 C-contiguous), layout/dtype independence, finite results for zero/constant records"""
    import numpy as np
    from speckit import SpectrumAnalyzer

    rng = np.random.default_rng(seed)
    fails, n = [], 0
    N = 800
    kw = dict(olap=0.5, Jdes=12, Kdes=6, scheduler="ltf", win="hann")
    base = rng.normal(size=(2, N))

    def attrs(res, cross):
        names = ["Gxx", "Gyy", "Gxy", "coh", "Hxy"] if cross else ["Gxx", "psd", "asd"]
        return {k: np.asarray(getattr(res, k)) for k in names}

    kinds = {"nan": [np.nan], "posinf": [np.inf], "neginf": [-np.inf], "mixed": [np.nan, np.inf, -np.inf]}
    for kind, vals in kinds.items():
        bad = base.copy()
        idx = rng.choice(N, 6, replace=False)
        for k, i in enumerate(idx):
            bad[k % 2, i] = vals[k % len(vals)]
        zero = np.where(np.isfinite(bad), bad, 0.0)
        layouts = {
            "1d float64 contiguous": (bad[0].copy(), zero[0], False),
            "1d strided": (np.repeat(bad[0], 2)[::2], zero[0], False),
            "2xN float64 contiguous": (bad.copy(), zero, True),
            "Nx2": (np.ascontiguousarray(bad.T), zero, True),
            "2xN float32": (bad.astype(np.float32), np.where(np.isfinite(bad.astype(np.float32)), bad.astype(np.float32), 0).astype(np.float64), True),
            "list": ([bad[0].copy(), bad[1].copy()], zero, True),
        }
        for lname, (inp, zf, cross) in layouts.items():
            n += 1
            keep = [np.array(c, copy=True) for c in inp] if isinstance(inp, list) else np.array(inp, copy=True)
            res = attrs(SpectrumAnalyzer(inp, 10.0, **kw).compute(), cross)
            ref = attrs(SpectrumAnalyzer(zf, 10.0, **kw).compute(), cross)
            same_input = all(np.array_equal(a, b, equal_nan=True) for a, b in zip(inp, keep)) if isinstance(inp, list) else np.array_equal(inp, keep, equal_nan=True)
            if not same_input:
                fails.append({"label": "C13.caller_array_untouched", "input": {"kind": kind, "layout": lname}, "detail": "the caller's array was modified"})
            for k in res:
                if not np.all(np.isfinite(res[k])) or not np.allclose(res[k], ref[k], rtol=1e-9, atol=1e-300):
                    fails.append({"label": "C13.equals_zero_filled", "input": {"kind": kind, "layout": lname, "attribute": k}, "detail": "result differs from that of the zero-filled record (or is not finite)"})
                    break
    for rec, nm in ((np.zeros(N), "all-zero"), (np.full(N, 3.0), "constant"), (np.zeros((2, N)), "all-zero pair"), (np.vstack([np.full(N, 2.0), rng.normal(size=N)]), "constant + noise")):
        for order in (-1, 0, 1, 2):
            n += 1
            r = SpectrumAnalyzer(rec, 10.0, order=order, **kw).compute()
            cross = rec.ndim == 2
            for k in (["Gxx", "Gyy", "Gxy", "coh", "ccoh", "Hxy", "Hyx", "cf", "cf_rad", "GyyCx", "GyyRx", "GyySx"] if cross else ["Gxx", "psd", "asd", "ps", "ENBW"]):
                v = getattr(r, k)
                if not np.all(np.isfinite(v)):
                    fails.append({"label": "C13.finite_results", "input": {"record": nm, "order": order, "attribute": k}, "detail": "non-finite value for a finite record"})
                    break
    return {"evaluations": n, "bound": "4 kinds of non-finite samples x 6 layouts/dtypes; zero/constant records x 4 orders", "failures": fails[:5], "n_failures": len(fails)}


BOUNDED["C13.inputs"] = bounded_inputs
PROPERTY_INFO["C13"] = {"bounded": ["C13.inputs"], "not_decided": ["overflow of finite floats to inf (A-REAL)", "dtype/stride independence is covered by the value-preserving conversion contracts (A-ELEM) and sampled by the bounded check"]}


# ---- SpectrumAnalyzer.compute: rows of _lpsd_core -> result arrays (C05, C14) -----------------------------
# compute() is proved against the *contract* of _lpsd_core (one row per requested bin, in request order, row[0] the
# bin index - the two clauses every _lpsd_core variant above proves) and for a cached plan satisfying the plan()
# postconditions (contracts/schedulers_plan.py: plan() returns and caches such a plan or raises).  What it adds:
# the scatter loop writes bin i's statistics - and nothing else - into slot i of XX, YY, XY, S12, S2, M2; the plan
# fields are handed over unchanged; the result is built from exactly these.

CORE_REQ = {"C05.requested_bins_exist": "self._plan_cache is not None and forall(0, len(f_indices), lambda q: 0 <= f_indices[q] and f_indices[q] < self._plan_cache['nf'])"}
CORE_CALL_ENS = {"one_row_per_requested_bin": "len(result) == len(f_indices)", "rows_in_request_order": "forall(0, len(f_indices), lambda q: result[q][0] == f_indices[q])"}


def _rows_returns(eng, st, name, fid):
    from pyvc.loops import fresh_list
    from pyvc import values as V

    lv = fresh_list(eng, "core_rows", "list[row]")
    st.assume(V.cmp(">=", lv.n, 0))
    return eng.alloc(st, lv)


def _rows_call_post(eng, st, fid, res):
    eng.set_ghost("CORE_ROWS", st.heap[res.loc], st)


for _u in UNITS:
    if _u.id.startswith("analysis.SpectrumAnalyzer._lpsd_core["):
        _u.requires = list(_u.requires) + list(CORE_REQ.items())
_callee = next(u for u in UNITS if u.id == "analysis.SpectrumAnalyzer._lpsd_core[cross,order=0,auto,kaiser]")
_callee.opts.update({"callee": True, "call_ensures": CORE_CALL_ENS})
_callee.returns = _rows_returns
_callee.call_post = _rows_call_post


def make_compute(iscsd):
    def setup(eng, st, fid, genv):
        import z3
        from pyvc import values as V
        from pyvc.heap import DictV, ListV, ArrV, ObjV
        from pyvc.values import Sym

        ref = build_analyzer(eng, st, fid, genv, iscsd, 0, "auto", True)
        nf = eng.fresh("nf", "int")
        st.assume(V.cmp(">=", nf, 1))
        pd_ = {"nf": nf}
        for k_, ty_ in (("f", "real"), ("r", "real"), ("b", "real"), ("m", "real"), ("L", "int"), ("K", "int"), ("navg", "int"), ("O", "real")):
            pd_[k_] = eng.alloc(st, eng.fresh_array("plan_" + k_, (nf,), ty_))
        from pyvc.loops import fresh_list

        dl = fresh_list(eng, "plan_D", "list[list[int]]")
        st.assume(V.cmp("==", dl.n, nf))
        pd_["D"] = eng.alloc(st, dl)
        plan = eng.alloc(st, DictV(pd_))
        o = st.heap[ref.loc]
        flds = dict(o.fields)
        flds["_plan_cache"] = plan
        st.heap[ref.loc] = ObjV(o.cls, flds)
        genv.update(nf=nf, PLAN=st.heap[plan.loc])
        st.tags["frozen"]["plan"] = plan.loc

    tag = "cross" if iscsd else "auto"
    return Unit(
        id=f"analysis.SpectrumAnalyzer.compute[{tag}]",
        module=M,
        func="SpectrumAnalyzer.compute",
        props=["C05", "C14"],
        setup=setup,
        loops={
            # 0: for chunk in results_list (one chunk, unrolled); 1: the scatter loop over the rows
            "1": dict(
                label="scatter",
                inv={
                    "written": "forall(0, _i, lambda q: XX[q] == CORE_ROWS[q][2] and YY[q] == CORE_ROWS[q][3] and XY[q] == CORE_ROWS[q][1]"
                    " and S12[q] == CORE_ROWS[q][4] and S2[q] == CORE_ROWS[q][5] and M2[q] == CORE_ROWS[q][6] and tms[q] == CORE_ROWS[q][7])",
                },
            )
        },
        ensures={
            "C05.all_bins_requested_once_in_order": "len(CORE_ROWS) == nf and forall(0, nf, lambda q: CORE_ROWS[q][0] == q)",
            "C05.bin_statistics_in_their_own_slot": "forall(0, nf, lambda q: result._data['XX'][q] == CORE_ROWS[q][2] and result._data['YY'][q] == CORE_ROWS[q][3] and result._data['XY'][q] == CORE_ROWS[q][1]"
            " and result._data['S12'][q] == CORE_ROWS[q][4] and result._data['S2'][q] == CORE_ROWS[q][5] and result._data['M2'][q] == CORE_ROWS[q][6])",
            "C05.array_lengths": "len(result._data['XX']) == nf and len(result._data['YY']) == nf and len(result._data['XY']) == nf and len(result._data['S12']) == nf and len(result._data['S2']) == nf and len(result._data['M2']) == nf",
            "C05.plan_fields_handed_over": "result._data['f'] is PLAN['f'] and result._data['L'] is PLAN['L'] and result._data['K'] is PLAN['K'] and result._data['navg'] is PLAN['navg'] and result._data['D'] is PLAN['D'] and result._data['r'] is PLAN['r'] and result._data['b'] is PLAN['b'] and result._data['O'] is PLAN['O']",
            "C05.mode_and_rate": "result.iscsd == ISCSD and result.fs == fs",
            "C14.analyzer_state_untouched": "ANALYZER_UNCHANGED",
        },
        raises={"RuntimeError": True},
        post_hook=_analyzer_post,
        opts={"callee": False},
    )


for _iscsd in (False, True):
    UNITS.append(make_compute(_iscsd))
