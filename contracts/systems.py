"""Contracts for speckit/systems.py (C15).

SISO: proved - the function returns (f, sqrt(GyySx)) of the two-channel analysis of (input,
output); GyySx is under contract (== Gyy*(1-coherence), contracts/analysis_result.py).
MISO analytic / numeric: the sympy solve / per-bin numpy.linalg.solve with exception handling is
outside the interpreted subset; these two functions are *bounded-only* (run-time check against
the direct formula S00 - S^H T^-1 S, invariances, bounds).  The algebraic certificate that the
residual expression S00 - Sum1 - Sum2 + Sum3 equals S00 - sum_i conj(S_i0) H_i whenever T H = S is
proved as a pure lemma (q = 1, 2, 3) - it is about the formula, not about the code.
"""
from pyvc.unitdef import Unit

M = "speckit/systems.py"
UNITS = []


def _siso_setup(eng, st, fid, genv):
    from pyvc.heap import DictV

    eng.setvar(st, fid, "kwargs", eng.alloc(st, DictV({})))


UNITS.append(
    Unit(
        id="systems.SISO_optimal_spectral_analysis",
        module=M,
        func="SISO_optimal_spectral_analysis",
        props=["C15"],
        ghosts={"n": ("int", "len(input)")},
        params={"input": ("arr", "real", ("n",)), "output": ("arr", "real", ("n",)), "fs": "real"},
        setup=_siso_setup,
        requires=["n >= 1", "fs > 0"],
        ensures={
            "analysis_of_input_then_output": "LTF_CALL['x'] is old_input and LTF_CALL['y'] is old_output and LTF_CALL['fs'] == fs",
            "returns_grid_and_sqrt_of_residual": "result[0] is LTF_CALL['f'] and forall(0, LTF_CALL['nf'], lambda b: result[1][b] == sqrt(LTF_CALL['GyySx'][b]))",
        },
        raises={"ValueError": "False"},
        opts={"callee": False},
    )
)


def _certificate(q):
    def setup(eng, prop):
        """lemma (pure algebra over complex numbers): with Sum1 = sum_i H_i conj(S_i), Sum2 = sum_i conj(H_i) S_i,
        Sum3 = sum_ij conj(H_j) H_i T_ji:
            (S00 - Sum1 - Sum2 + Sum3) - (S00 - sum_i conj(S_i) H_i) == sum_j conj(H_j) (sum_i T_ji H_i - S_j)"""
        import z3
        from pyvc.engine import State
        from pyvc.values import Sym, Cx
        from pyvc import values as V

        st = State()
        eng.cur_state = st
        c = lambda nm: Cx(Sym(z3.Real(nm + ".re"), "real"), Sym(z3.Real(nm + ".im"), "real"))
        H = [c(f"H{i}") for i in range(q)]
        S = [c(f"S{i}") for i in range(q)]
        T = [[c(f"T{j}{i}") for i in range(q)] for j in range(q)]
        S00 = Sym(z3.Real("S00"), "real")
        zero = Cx(0, 0)
        s1 = s2 = s3 = lin = rhs = zero
        for i in range(q):
            s1 = V.add(s1, V.mul(H[i], V.conj(S[i])))
            s2 = V.add(s2, V.mul(V.conj(H[i]), S[i]))
            lin = V.add(lin, V.mul(V.conj(S[i]), H[i]))
            for j in range(q):
                s3 = V.add(s3, V.mul(V.mul(V.conj(H[j]), H[i]), T[j][i]))
        for j in range(q):
            inner = V.neg(S[j])
            for i in range(q):
                inner = V.add(inner, V.mul(T[j][i], H[i]))
            rhs = V.add(rhs, V.mul(V.conj(H[j]), inner))
        lhs = V.sub(V.add(V.sub(V.sub(S00, s1), s2), s3), V.sub(S00, lin))
        eng.oblige(st, "lemma", f"residual_certificate[q={q}]", V.cmp("==", lhs, rhs))

    return setup


for _q in (1, 2, 3):
    UNITS.append(Unit(id=f"lemma.miso_residual_certificate[q={_q}]", module=M, func="MISO_numeric_optimal_spectral_analysis", props=["C15"], kind="lemma", setup=_certificate(_q), opts={"callee": False}))

for _f in ("MISO_analytic_optimal_spectral_analysis",):
    UNITS.append(Unit(id=f"systems.{_f}", module=M, func=_f, props=["C15"], opts={"callee": False, "bounded_only": "sympy.solve / lambdify: outside the interpreted subset"}, runtime=None))


# ---- MISO numeric, q = 1, 2, 3 inputs: the residual is S00 - S^H T^-1 S wherever T is solvable ----------------------
# Assumed contracts (DESIGN 3.2): compute_spectrum of a channel / a pair returns, on one common grid, the auto densities
# G(a,a) >= 0 and the cross density G(a,b) = conj(G(b,a)) (established for the real code by C05-C09); numpy.linalg.solve
# returns h with T h = S or raises LinAlgError; numpy.linalg.cond / pinv are uninterpreted.  Proved: the matrices are
# filled with the right densities (T[i,j] = G(in_i,in_j), S[i] = G(in_i,out)), every solvable well-conditioned bin holds
# the solution of T H = S, and the returned amplitude satisfies asd^4 = |S00 - sum_i conj(S_i) H_i|^2 there.


def _miso_setup(q):
    def setup(eng, st, fid, genv):
        from pyvc import values as V
        from pyvc.heap import DictV, ListV

        N = eng.fresh("N", "int")
        st.assume(V.cmp(">=", N, 1))
        ins = [eng.alloc(st, eng.fresh_array(f"in{i}", (N,), "real")) for i in range(q)]
        out = eng.alloc(st, eng.fresh_array("out", (N,), "real"))
        fs = eng.fresh("fs", "real")
        st.assume(V.cmp(">", fs, 0))
        eng.setvar(st, fid, "inputs", eng.alloc(st, ListV(items=list(ins))))
        eng.setvar(st, fid, "output", out)
        eng.setvar(st, fid, "fs", fs)
        eng.setvar(st, fid, "kwargs", eng.alloc(st, DictV({})))
        nf = eng.fresh("nf", "int")
        st.assume(V.cmp(">=", nf, 1))
        st.tags["miso"] = {"nf": nf, "chan": {st.heap[r.loc].uid: i for i, r in enumerate(ins)}, "G": {}, "f": eng.fresh_array("grid", (nf,), "real")}
        st.tags["miso"]["chan"][st.heap[out.loc].uid] = "o"
        genv.update(nf=nf, Q=q)

    return setup


def _miso_post(eng, st, fid, res, entry):
    fr = st.frames[fid]["vars"]
    for nm in ("Hvec", "Tmat", "Svec", "S00", "Sum1", "Sum2", "Sum3"):
        eng.set_ghost(nm.upper(), eng.deref(st, fr[nm]), st)
    eng.set_ghost("GRIDF", st.tags["miso"]["f"], st)


for _q in (1, 2):  # q = 3: the 3x3 complex row equations exceed what the nonlinear back end closes reliably: bounded only
    _rows = " and ".join("(" + " + ".join(f"TMAT[{i}, {m}, k] * HVEC[{m}, k]" for m in range(_q)) + f") == SVEC[{i}, k]" for i in range(_q))
    _lin = " + ".join(f"conj(SVEC[{i}, k]) * HVEC[{i}, k]" for i in range(_q))
    UNITS.append(
        Unit(
            id=f"systems.MISO_numeric_optimal_spectral_analysis[q={_q}]",
            module=M,
            func="MISO_numeric_optimal_spectral_analysis",
            props=["C15"],
            setup=_miso_setup(_q),
            loops={
                # 5: for k in range(nf): every solvable, well-conditioned bin already visited holds T_k H_k = S_k
                "5": dict(label="bins", inv={"solved": "forall(0, k, lambda j: implies(SOLVED(j), " + " and ".join("(" + " + ".join(f"Tmat[{i}, {m}, j] * Hvec[{m}, j]" for m in range(_q)) + f") == Svec[{i}, j]" for i in range(_q)) + "))"}),
            },
            ensures={
                "C15.matrices_hold_the_densities": "forall(0, nf, lambda k: " + " and ".join(f"TMAT[{i}, {j}, k] == GDENS({i}, {j}, k)" for i in range(_q) for j in range(_q)) + " and " + " and ".join(f"SVEC[{i}, k] == GDENS({i}, 'o', k)" for i in range(_q)) + " and S00[k] == re(GDENS('o', 'o', k)))",
                "C15.solvable_bins_hold_the_solution": f"forall(0, nf, lambda k: implies(SOLVED(k), {_rows}))",
                # cut lemmas: the certificate identity on the code's own sums, and |sqrt(z)|^4 = |z|^2
                "lemma.certificate": f"forall(0, nf, lambda k: implies(SOLVED(k), S00[k] - SUM1[k] - SUM2[k] + SUM3[k] == S00[k] - ({_lin})))",
                "lemma.modulus_of_the_root": "forall(0, nf, lambda k: (result[1][k]**2)**2 == abs2(S00[k] - SUM1[k] - SUM2[k] + SUM3[k]))",
                "C15.residual_is_the_optimal_one": f"forall(0, nf, lambda k: implies(SOLVED(k), (result[1][k]**2)**2 == abs2(S00[k] - ({_lin}))))",
                "C15.grid": "result[0] is GRIDF",
            },
            raises={},
            post_hook=_miso_post,
            opts={"callee": False, "lemma_from": {"lemma.certificate": ["C15.solvable_bins_hold_the_solution"]}},
        )
    )


def install(eng):
    from pyvc.heap import Builtin, ArrV, ObjV, DictV
    from pyvc.values import Sym, Opaque, Unsupported, Cx
    from pyvc import values as V
    import z3

    # speckit.compute_spectrum by contract: a two-channel call returns a cross result on a grid
    # (f, nf) whose GyySx attribute is the contracted Gyy*(1-coh); the call is recorded (ghost LTF_CALL)
    def gdens(eng_, st, a, b):
        """density table of the MISO units: G(a,b)[k], Hermitian, real non-negative diagonal (assumed contract)"""
        real = eng_.cur_state
        tab = real.tags["miso"]
        nf = tab["nf"]
        key = (str(a), str(b))
        if key not in tab["G"]:
            if str(a) == str(b):
                g = eng_.fresh_array(f"G_{a}{a}", (nf,), "real")
                q_ = z3.Int("gq")
                real.fact(z3.ForAll([q_], z3.Implies(z3.And(q_ >= 0, q_ < nf.t), g.uf(q_) >= 0)))
                tab["G"][key] = ArrV((nf,), lambda ix, g=g: V.cx_of(g.fn(ix)), "cx")
            elif (str(b), str(a)) in tab["G"]:
                o = tab["G"][(str(b), str(a))]
                tab["G"][key] = ArrV((nf,), lambda ix, o=o: V.conj(o.fn(ix)), "cx")
            else:
                tab["G"][key] = eng_.fresh_array(f"G_{a}{b}", (nf,), "cx")
        return tab["G"][key]

    def ltf_miso(eng_, st, data, fs):
        from pyvc.heap import ListV

        real = eng_.cur_state
        tab = real.tags["miso"]
        d = eng_.deref(st, data)
        if isinstance(d, ListV) and d.concrete() and len(d.items) == 2:
            a, b = [tab["chan"][eng_.deref(st, i).uid] for i in d.items]
        elif isinstance(d, ArrV):
            a = b = tab["chan"][d.uid]
        else:
            raise Unsupported("compute_spectrum by contract (MISO): a channel or a pair of channels")
        gaa, gbb, gab = gdens(eng_, st, a, a), gdens(eng_, st, b, b), gdens(eng_, st, a, b)
        nf = tab["nf"]
        flds = {
            "f": eng_.alloc(real, tab["f"]),
            "nf": nf,
            "Gxx": eng_.alloc(real, ArrV((nf,), lambda ix: gaa.fn(ix).re, "real")),
            "Gyy": eng_.alloc(real, ArrV((nf,), lambda ix: gbb.fn(ix).re, "real")),
            "Gxy": eng_.alloc(real, ArrV((nf,), lambda ix: gab.fn(ix), "cx")),
        }
        eng_.trusted_calls.add("speckit.compute_spectrum of a channel / a pair: common grid, auto densities G(a,a) >= 0, cross density G(a,b) = conj(G(b,a)) (assumed here; established for the real code by C05-C09)")
        return eng_.alloc(real, ObjV("SpectrumResult#bycontract", flds))

    # numpy.linalg on the per-bin (q, q) matrix T[:, :, k]: cond is an uninterpreted function of the bin, solve returns
    # the solution or raises LinAlgError (singular bins), pinv is uninterpreted
    COND = z3.Function("miso_cond", z3.IntSort(), z3.RealSort())
    SING = z3.Function("miso_singular", z3.IntSort(), z3.BoolSort())

    def bin_of(Tk):
        vo = getattr(Tk, "_view_of", None)
        if vo is None or len(vo[1]) != 3 or vo[1][2] is None:
            raise Unsupported("numpy.linalg on something that is not T[:, :, k]")
        return V.int_term(vo[1][2])

    def la_cond(eng_, st, Tk):
        Tk = eng_.deref(st, Tk)
        c = Sym(COND(bin_of(Tk)), "real")
        eng_.cur_state.fact(c.t >= 1)
        eng_.trusted.add("numpy.linalg.cond(T_k): an uninterpreted function of the bin (>= 1)")
        return c

    def la_pinv(eng_, st, Tk, **kw):
        Tk = eng_.deref(st, Tk)
        eng_.trusted.add("numpy.linalg.pinv(T_k): uninterpreted (ill-conditioned / singular bins carry no claim)")
        return eng_.alloc(eng_.cur_state, eng_.fresh_array("pinv", Tk.shape, "cx"))

    def la_solve(eng_, st, Tk, Sk):
        from pyvc.engine import _Forked, _Raised
        from pyvc.heap import ExcV

        Tk, Sk = eng_.deref(st, Tk), eng_.deref(st, Sk)
        kt = bin_of(Tk)
        real = eng_.cur_state
        q_ = Tk.shape[0]
        if not isinstance(q_, int):
            raise Unsupported("numpy.linalg.solve: symbolic dimension")
        bad = real.copy()
        bad.assume(Sym(SING(kt), "bool"))
        real.assume(Sym(z3.Not(SING(kt)), "bool"))
        h = eng_.fresh_array("solve", (q_,), "cx")
        for i in range(q_):
            acc = Cx(0, 0)
            for m in range(q_):
                acc = V.add(acc, V.mul(V.cx_of(Tk.fn((i, m))), V.cx_of(h.fn((m,)))))
            real.assume(V.cmp("==", acc, V.cx_of(Sk.fn((i,)))))
        eng_.trusted.add("numpy.linalg.solve(T_k, S_k): returns h with T_k h = S_k, or raises LinAlgError (assumed)")
        outs = [(real, eng_.alloc(real, h))]
        if eng_.feasible(bad):
            outs.append((bad, _Raised(ExcV("LinAlgError", (0,)))))
        return _Forked(outs)

    la = eng.builtins["__modules__"]["numpy"].attrs["linalg"]
    la.attrs["cond"] = Builtin("numpy.linalg.cond", la_cond, True)
    la.attrs["pinv"] = Builtin("numpy.linalg.pinv", la_pinv, True)
    la.attrs["solve"] = Builtin("numpy.linalg.solve", la_solve, True)
    la.attrs["LinAlgError"] = Opaque("class:LinAlgError")

    def spec_solved(eng_, st, k):
        kt = V.int_term(eng_.deref(st, k))
        return Sym(z3.And(z3.Not(SING(kt)), COND(kt) <= z3.RealVal(10**12)), "bool")

    eng.builtins["SOLVED"] = Builtin("SOLVED", spec_solved, True)

    def spec_gdens(eng_, st, a, b, k):
        g = gdens(eng_, st, a, b)
        return g.fn((eng_.deref(st, k),))

    eng.builtins["GDENS"] = Builtin("GDENS", spec_gdens, True)

    def ltf(eng_, st, data, fs, **kwargs):
        if "miso" in eng_.cur_state.tags:
            return ltf_miso(eng_, st, data, fs)
        d = eng_.deref(st, data)
        from pyvc.heap import ListV

        if not (isinstance(d, ListV) and d.concrete() and len(d.items) == 2):
            raise Unsupported("compute_spectrum by contract: only the two-channel list form is modelled")
        x, y = [eng_.deref(st, i) for i in d.items]
        nf = eng_.fresh("nf", "int")
        eng_.cur_state.assume(V.cmp(">=", nf, 1))
        f = eng_.fresh_array("res_f", (nf,), "real")
        g = eng_.fresh_array("res_GyySx", (nf,), "real")
        q = z3.Int("gq")
        eng_.cur_state.fact(z3.ForAll([q], z3.Implies(z3.And(q >= 0, q < nf.t), g.uf(q) >= 0)))
        fr, gr = eng_.alloc(st, f), eng_.alloc(st, g)
        eng_.set_ghost("LTF_CALL", DictV({"x": x, "y": y, "fs": fs, "f": f, "nf": nf, "GyySx": g}))
        eng_.trusted_calls.add("speckit.compute_spectrum (SpectrumAnalyzer(...).compute(): contracts/analysis_compute.py, attribute GyySx: contracts/analysis_result.py; GyySx >= 0 by |Gxy|^2 <= Gxx*Gyy)")
        return eng_.alloc(st, ObjV("SpectrumResult#bycontract", {"f": fr, "GyySx": gr, "nf": nf}))

    eng.builtins["speckit.compute_spectrum"] = Builtin("speckit.compute_spectrum", ltf, True)


# ------------------------------------------------------------------------- bounded stand-in


def bounded_miso(tier, seed):
    import numpy as np
    from speckit import compute_spectrum
    from speckit.systems import SISO_optimal_spectral_analysis as siso, MISO_analytic_optimal_spectral_analysis as ana, MISO_numeric_optimal_spectral_analysis as num

    rng = np.random.default_rng(seed)
    fails, n = [], 0
    N, fs = 6000, 10.0
    kw = dict(olap=0.5, Jdes=25, Kdes=12, Lmin=150, scheduler="ltf", win="hann", order=0)
    src = rng.normal(size=N)

    def direct(inputs, out):
        q = len(inputs)
        ref = compute_spectrum(out, fs, **kw)
        nf = len(ref.f)
        T = np.zeros((q, q, nf), complex)
        S = np.zeros((q, nf), complex)
        for i in range(q):
            T[i, i] = compute_spectrum(inputs[i], fs, **kw).Gxx
            S[i] = compute_spectrum([inputs[i], out], fs, **kw).Gxy
            for j in range(i + 1, q):
                g = compute_spectrum([inputs[i], inputs[j]], fs, **kw).Gxy
                T[i, j], T[j, i] = g, np.conj(g)
        res = np.array([ref.Gxx[k] - np.real(np.conj(S[:, k]) @ np.linalg.solve(T[:, :, k], S[:, k])) for k in range(nf)])
        return ref, res

    cases = []
    for q in (1, 2, 3) if tier == "quick" else (1, 2, 3, 4):
        ins = [np.roll(src, 3 * i) * (1 + 0.2 * i) + 0.7 * rng.normal(size=N) for i in range(q)]
        out = sum((0.5 + i) * np.roll(ins[i], 2 * i + 1) for i in range(q)) + 0.3 * rng.normal(size=N)
        cases.append((q, ins, out, "delayed couplings + noise"))
        cases.append((q, ins, sum((i + 1.0) * ins[i] for i in range(q)), "exact static combination"))
    for q, ins, out, what in cases:
        ref, res = direct(ins, out)
        ok = np.asarray(ref.navg) > q
        sc = ref.Gxx
        for name, fn in (("analytic", ana), ("numeric", num)):
            n += 1
            f_, asd = fn(ins, out, fs, **kw)
            d = np.max(np.abs(asd[ok] ** 2 - np.maximum(res[ok], 0)) / sc[ok])
            if d > 1e-6:
                fails.append({"label": "C15.residual_formula", "input": {"q": q, "solver": name, "case": what}, "detail": f"max |res - (S00 - S^H T^-1 S)|/Gyy = {d:.3g}"})
            if np.any(asd[ok] ** 2 > sc[ok] * (1 + 1e-9)):
                fails.append({"label": "C15.bounded_by_output", "input": {"q": q, "solver": name}, "detail": "residual exceeds the output spectrum"})
        if what.startswith("exact"):
            n += 1
            if np.max(num(ins, out, fs, **kw)[1][ok] ** 2 / sc[ok]) > 1e-6:
                fails.append({"label": "C15.exact_combination", "input": {"q": q}, "detail": "residual not zero for an exact static combination"})
        if q >= 2:
            n += 1
            perm = ins[::-1]
            A = rng.normal(size=(q, q)) + 2 * np.eye(q)
            mixed = [sum(A[i, j] * ins[j] for j in range(q)) for i in range(q)]
            base = num(ins, out, fs, **kw)[1]
            if np.max(np.abs(num(perm, out, fs, **kw)[1][ok] - base[ok]) / np.sqrt(sc[ok])) > 1e-6 or np.max(np.abs(num(mixed, out, fs, **kw)[1][ok] - base[ok]) / np.sqrt(sc[ok])) > 1e-5:
                fails.append({"label": "C15.invariance", "input": {"q": q}, "detail": "residual changes under permutation / invertible re-mixing of the inputs"})
    # inputs in very different units: an invertible diagonal re-mix must not change the residual, the two solvers must
    # agree, and an exact static combination must still leave nothing
    for s_ in (1e-3, 1e-4, 1e4):
        n += 1
        x1 = rng.normal(size=N)
        x2 = 0.3 * x1 + rng.normal(size=N)
        yy = 0.7 * x1 - 0.4 * x2 + 0.2 * rng.normal(size=N)
        ref_, _ = direct([x1, x2], yy)
        okb = np.asarray(ref_.navg) > 2
        b0 = num([x1, x2], yy, fs, **kw)[1]
        b1 = num([x1, s_ * x2], yy, fs, **kw)[1]
        a1 = ana([x1, s_ * x2], yy, fs, **kw)[1]
        scb = np.sqrt(ref_.Gxx)
        if np.max(np.abs(b1[okb] - b0[okb]) / scb[okb]) > 1e-5 or np.max(np.abs(a1[okb] - b1[okb]) / scb[okb]) > 1e-5:
            fails.append({"label": "C15.invariance", "input": {"input_scale": s_}, "detail": "residual changes when one input is expressed in other units (or the two solvers disagree)"})
        ex = num([x1, s_ * x2], 2 * x1 + 3 * x2, fs, **kw)[1]
        ref2 = compute_spectrum(2 * x1 + 3 * x2, fs, **kw)
        if np.max(ex[okb] ** 2 / ref2.Gxx[okb]) > 1e-6:
            fails.append({"label": "C15.exact_combination", "input": {"input_scale": s_}, "detail": "residual not zero for an exact static combination of inputs in different units"})
    # q = 1 with a delayed coupling: all three agree with sqrt(Gyy(1-coh))
    x = rng.normal(size=N)
    y = 0.8 * np.roll(x, 2) + 0.5 * rng.normal(size=N)
    r = compute_spectrum([x, y], fs, **kw)
    want = np.sqrt(r.Gyy * (1 - r.coh))
    for name, val in (("SISO", siso(x, y, fs, **kw)[1]), ("MISO analytic", ana([x], y, fs, **kw)[1]), ("MISO numeric", num([x], y, fs, **kw)[1])):
        n += 1
        if np.max(np.abs(val - want) / np.sqrt(r.Gyy)) > 1e-6:
            fails.append({"label": "C15.one_input", "input": {"solver": name}, "detail": "residual differs from sqrt(Gyy(1-coh)) for a delayed coupling"})
    return {"evaluations": n, "bound": "q in 1..3 (4 in thorough), delayed/static couplings, N=6000", "failures": fails[:5], "n_failures": len(fails)}


BOUNDED = {"C15.miso": bounded_miso}
PROPERTY_INFO = {
    "C15": {
        "bounded": ["C15.miso"],
        "not_decided": ["0 <= res <= S00 and invariance under re-mixing rest on the Schur-complement lemma for positive semidefinite Gram matrices (mathematics M2): bounded only", "MISO analytic (sympy) function body: bounded only (see bounded_only_units); MISO numeric: proved for q = 1, 2 relative to the assumed contracts of compute_spectrum and numpy.linalg, q >= 3 bounded"],
        "level": "other",
        "explanation": "SISO path, the residual-formula certificate (q = 1..3) and the numeric MISO function for q = 1, 2 inputs are proved (relative to the assumed contracts of compute_spectrum / numpy.linalg); the analytic (sympy) MISO function and q >= 3 are checked at run time only (bounded), so the property as a whole is not claimed as proof",
    }
}
