"""Contracts for speckit/systems.py (C15).

SISO: proved - the function returns (f, sqrt(GyySx)) of the two-channel analysis of (input,
output); GyySx is under contract (== Gyy*(1-coherence), contracts/analysis_result.py).
MISO analytic / numeric: the sympy solve / per-bin numpy.linalg.solve with exception handling is
outside the interpreted subset; these two functions are *bounded-only* (run-time check against
the direct formula S00 - S^H T^-1 S, invariances, bounds).  The algebraic certificate that the
residual expression S00 - Sum1 - Sum2 + Sum3 equals S00 - sum_i conj(S_i0) H_i whenever T H = S is
proved as a pure lemma (q = 1, 2, 3) - it is about the formula, not about the code.
"""
from pyvc.unitdef import Unit

M = "speckit/systems.py"
UNITS = []


def _siso_setup(eng, st, fid, genv):
    from pyvc.heap import DictV

    eng.setvar(st, fid, "kwargs", eng.alloc(st, DictV({})))


UNITS.append(
    Unit(
        id="systems.SISO_optimal_spectral_analysis",
        module=M,
        func="SISO_optimal_spectral_analysis",
        props=["C15"],
        ghosts={"n": ("int", "len(input)")},
        params={"input": ("arr", "real", ("n",)), "output": ("arr", "real", ("n",)), "fs": "real"},
        setup=_siso_setup,
        requires=["n >= 1", "fs > 0"],
        ensures={
            "analysis_of_input_then_output": "LTF_CALL['x'] is old_input and LTF_CALL['y'] is old_output and LTF_CALL['fs'] == fs",
            "returns_grid_and_sqrt_of_residual": "result[0] is LTF_CALL['f'] and forall(0, LTF_CALL['nf'], lambda b: result[1][b] == sqrt(LTF_CALL['GyySx'][b]))",
        },
        raises={"ValueError": "False"},
        opts={"callee": False},
    )
)


def _certificate(q):
    def setup(eng, prop):
        """lemma (pure algebra over complex numbers): with Sum1 = sum_i H_i conj(S_i), Sum2 = sum_i conj(H_i) S_i,
        Sum3 = sum_ij conj(H_j) H_i T_ji:
            (S00 - Sum1 - Sum2 + Sum3) - (S00 - sum_i conj(S_i) H_i) == sum_j conj(H_j) (sum_i T_ji H_i - S_j)"""
        import z3
        from pyvc.engine import State
        from pyvc.values import Sym, Cx
        from pyvc import values as V

        st = State()
        eng.cur_state = st
        c = lambda nm: Cx(Sym(z3.Real(nm + ".re"), "real"), Sym(z3.Real(nm + ".im"), "real"))
        H = [c(f"H{i}") for i in range(q)]
        S = [c(f"S{i}") for i in range(q)]
        T = [[c(f"T{j}{i}") for i in range(q)] for j in range(q)]
        S00 = Sym(z3.Real("S00"), "real")
        zero = Cx(0, 0)
        s1 = s2 = s3 = lin = rhs = zero
        for i in range(q):
            s1 = V.add(s1, V.mul(H[i], V.conj(S[i])))
            s2 = V.add(s2, V.mul(V.conj(H[i]), S[i]))
            lin = V.add(lin, V.mul(V.conj(S[i]), H[i]))
            for j in range(q):
                s3 = V.add(s3, V.mul(V.mul(V.conj(H[j]), H[i]), T[j][i]))
        for j in range(q):
            inner = V.neg(S[j])
            for i in range(q):
                inner = V.add(inner, V.mul(T[j][i], H[i]))
            rhs = V.add(rhs, V.mul(V.conj(H[j]), inner))
        lhs = V.sub(V.add(V.sub(V.sub(S00, s1), s2), s3), V.sub(S00, lin))
        eng.oblige(st, "lemma", f"residual_certificate[q={q}]", V.cmp("==", lhs, rhs))

    return setup


for _q in (1, 2, 3):
    UNITS.append(Unit(id=f"lemma.miso_residual_certificate[q={_q}]", module=M, func="MISO_numeric_optimal_spectral_analysis", props=["C15"], kind="lemma", setup=_certificate(_q), opts={"callee": False}))

for _f in ("MISO_analytic_optimal_spectral_analysis", "MISO_numeric_optimal_spectral_analysis"):
    UNITS.append(Unit(id=f"systems.{_f}", module=M, func=_f, props=["C15"], opts={"callee": False, "bounded_only": "sympy.solve/lambdify resp. per-bin numpy.linalg.solve inside try/except: outside the interpreted subset"}, runtime=None))


def install(eng):
    from pyvc.heap import Builtin, ArrV, ObjV, DictV
    from pyvc.values import Sym, Opaque, Unsupported
    from pyvc import values as V
    import z3

    # speckit.compute_spectrum by contract: a two-channel call returns a cross result on a grid
    # (f, nf) whose GyySx attribute is the contracted Gyy*(1-coh); the call is recorded (ghost LTF_CALL)
    def ltf(eng_, st, data, fs, **kwargs):
        d = eng_.deref(st, data)
        from pyvc.heap import ListV

        if not (isinstance(d, ListV) and d.concrete() and len(d.items) == 2):
            raise Unsupported("compute_spectrum by contract: only the two-channel list form is modelled")
        x, y = [eng_.deref(st, i) for i in d.items]
        nf = eng_.fresh("nf", "int")
        eng_.cur_state.assume(V.cmp(">=", nf, 1))
        f = eng_.fresh_array("res_f", (nf,), "real")
        g = eng_.fresh_array("res_GyySx", (nf,), "real")
        q = z3.Int("gq")
        eng_.cur_state.fact(z3.ForAll([q], z3.Implies(z3.And(q >= 0, q < nf.t), g.uf(q) >= 0)))
        fr, gr = eng_.alloc(st, f), eng_.alloc(st, g)
        eng_.set_ghost("LTF_CALL", DictV({"x": x, "y": y, "fs": fs, "f": f, "nf": nf, "GyySx": g}))
        eng_.trusted_calls.add("speckit.compute_spectrum (SpectrumAnalyzer(...).compute(): contracts/analysis_compute.py, attribute GyySx: contracts/analysis_result.py; GyySx >= 0 by |Gxy|^2 <= Gxx*Gyy)")
        return eng_.alloc(st, ObjV("SpectrumResult#bycontract", {"f": fr, "GyySx": gr, "nf": nf}))

    eng.builtins["speckit.compute_spectrum"] = Builtin("speckit.compute_spectrum", ltf, True)


# ------------------------------------------------------------------------- bounded stand-in


def bounded_miso(tier, seed):
    import numpy as np
    from speckit import compute_spectrum
    from speckit.systems import SISO_optimal_spectral_analysis as siso, MISO_analytic_optimal_spectral_analysis as ana, MISO_numeric_optimal_spectral_analysis as num

    rng = np.random.default_rng(seed)
    fails, n = [], 0
    N, fs = 6000, 10.0
    kw = dict(olap=0.5, Jdes=25, Kdes=12, Lmin=150, scheduler="ltf", win="hann", order=0)
    src = rng.normal(size=N)

    def direct(inputs, out):
        q = len(inputs)
        ref = compute_spectrum(out, fs, **kw)
        nf = len(ref.f)
        T = np.zeros((q, q, nf), complex)
        S = np.zeros((q, nf), complex)
        for i in range(q):
            T[i, i] = compute_spectrum(inputs[i], fs, **kw).Gxx
            S[i] = compute_spectrum([inputs[i], out], fs, **kw).Gxy
            for j in range(i + 1, q):
                g = compute_spectrum([inputs[i], inputs[j]], fs, **kw).Gxy
                T[i, j], T[j, i] = g, np.conj(g)
        res = np.array([ref.Gxx[k] - np.real(np.conj(S[:, k]) @ np.linalg.solve(T[:, :, k], S[:, k])) for k in range(nf)])
        return ref, res

    cases = []
    for q in (1, 2, 3) if tier == "quick" else (1, 2, 3, 4):
        ins = [np.roll(src, 3 * i) * (1 + 0.2 * i) + 0.7 * rng.normal(size=N) for i in range(q)]
        out = sum((0.5 + i) * np.roll(ins[i], 2 * i + 1) for i in range(q)) + 0.3 * rng.normal(size=N)
        cases.append((q, ins, out, "delayed couplings + noise"))
        cases.append((q, ins, sum((i + 1.0) * ins[i] for i in range(q)), "exact static combination"))
    for q, ins, out, what in cases:
        ref, res = direct(ins, out)
        ok = np.asarray(ref.navg) > q
        sc = ref.Gxx
        for name, fn in (("analytic", ana), ("numeric", num)):
            n += 1
            f_, asd = fn(ins, out, fs, **kw)
            d = np.max(np.abs(asd[ok] ** 2 - np.maximum(res[ok], 0)) / sc[ok])
            if d > 1e-6:
                fails.append({"label": "C15.residual_formula", "input": {"q": q, "solver": name, "case": what}, "detail": f"max |res - (S00 - S^H T^-1 S)|/Gyy = {d:.3g}"})
            if np.any(asd[ok] ** 2 > sc[ok] * (1 + 1e-9)):
                fails.append({"label": "C15.bounded_by_output", "input": {"q": q, "solver": name}, "detail": "residual exceeds the output spectrum"})
        if what.startswith("exact"):
            n += 1
            if np.max(num(ins, out, fs, **kw)[1][ok] ** 2 / sc[ok]) > 1e-6:
                fails.append({"label": "C15.exact_combination", "input": {"q": q}, "detail": "residual not zero for an exact static combination"})
        if q >= 2:
            n += 1
            perm = ins[::-1]
            A = rng.normal(size=(q, q)) + 2 * np.eye(q)
            mixed = [sum(A[i, j] * ins[j] for j in range(q)) for i in range(q)]
            base = num(ins, out, fs, **kw)[1]
            if np.max(np.abs(num(perm, out, fs, **kw)[1][ok] - base[ok]) / np.sqrt(sc[ok])) > 1e-6 or np.max(np.abs(num(mixed, out, fs, **kw)[1][ok] - base[ok]) / np.sqrt(sc[ok])) > 1e-5:
                fails.append({"label": "C15.invariance", "input": {"q": q}, "detail": "residual changes under permutation / invertible re-mixing of the inputs"})
    # q = 1 with a delayed coupling: all three agree with sqrt(Gyy(1-coh))
    x = rng.normal(size=N)
    y = 0.8 * np.roll(x, 2) + 0.5 * rng.normal(size=N)
    r = compute_spectrum([x, y], fs, **kw)
    want = np.sqrt(r.Gyy * (1 - r.coh))
    for name, val in (("SISO", siso(x, y, fs, **kw)[1]), ("MISO analytic", ana([x], y, fs, **kw)[1]), ("MISO numeric", num([x], y, fs, **kw)[1])):
        n += 1
        if np.max(np.abs(val - want) / np.sqrt(r.Gyy)) > 1e-6:
            fails.append({"label": "C15.one_input", "input": {"solver": name}, "detail": "residual differs from sqrt(Gyy(1-coh)) for a delayed coupling"})
    return {"evaluations": n, "bound": "q in 1..3 (4 in thorough), delayed/static couplings, N=6000", "failures": fails[:5], "n_failures": len(fails)}


BOUNDED = {"C15.miso": bounded_miso}
PROPERTY_INFO = {
    "C15": {
        "bounded": ["C15.miso"],
        "not_decided": ["0 <= res <= S00 and invariance under re-mixing rest on the Schur-complement lemma for positive semidefinite Gram matrices (mathematics M2): bounded only", "MISO analytic/numeric function bodies: bounded only (see bounded_only_units)"],
        "level": "other",
        "explanation": "SISO path and the residual-formula certificate are proved; the two MISO functions are checked at run time only (bounded), so the property as a whole is not claimed as proof",
    }
}
