"""Contracts for speckit/core_cuda.py (C01, C07, C08, C14): the six CUDA device kernels
(one thread per segment) and their host wrappers.

Device kernel, for the thread with index ``tid = cuda.grid(1)``:
  tid <  K : slot tid of the four output arrays holds the per-segment values of the
             property's X, Y, Z (same spec functions as the Numba kernels); every other
             slot is left untouched                                   (race freedom, C14)
  tid >= K : nothing is written.
Host wrapper: the launch covers every segment (blocks*THREADS_PER_BLOCK >= K) and the
result is the reduction of those arrays.  Launch semantics, to_device / copy_to_host as
value-preserving copies: assumption A-JIT.
"""
import ast

from pyvc.unitdef import Unit

from contracts_core import (  # noqa: E402  (loaded by pyvc.main / the harness under this name)
    KERNEL_REQ,
    POLY_REQ,
    POST_AUTO,
    POST_CROSS,
    goertzel_roles,
    kernel_ghost_defs,
    kernel_roles,
    loops_in_order,
    kernel_sample,
    kernel_scale,
    reducer_lemmas,
)

M = "speckit/core_cuda.py"


def _sub(expr_node, name, new):
    import copy

    e = copy.deepcopy(expr_node)
    for n in ast.walk(e):
        if isinstance(n, ast.Name) and n.id == name:
            n.id = new
    return ast.unparse(e)


def cuda_kernel_loops(mod, fname, family, cross):
    """invariants synthesised from the shape of the device code:
    accumulate loops  v += E(idx)      ->  v == Sum(lo, idx, E)   (per accumulated variable)
    store-after-accumulate  a[k] = acc  ->  forall c < k: a[c] == Sum(...)
    Goertzel loops                       ->  the recurrence invariant of the Numba kernels"""
    fnode = mod.functions[fname]
    loops = loops_in_order(fnode)
    kr = kernel_roles(fnode)
    specs = {}
    gi = 0
    # names: thread index variable (assigned from cuda.grid)
    tid = None
    for n in ast.walk(fnode):
        if isinstance(n, ast.Assign) and isinstance(n.value, ast.Call) and isinstance(n.value.func, ast.Attribute) and n.value.func.attr == "grid":
            tid = n.targets[0].id
    parent = {}
    for l in loops:
        for ch in ast.walk(l):
            if ch is not l and isinstance(ch, (ast.For, ast.While)) and id(ch) not in parent:
                pass
    # direct parent loop of each loop
    def direct_parent(l):
        best = None
        for p in loops:
            if p is l:
                continue
            if any(ch is l for ch in ast.walk(p)):
                if best is None or any(ch is p for ch in ast.walk(best)):
                    best = p
        return best

    outer_alpha_inv = {}  # loop id -> inv text carried into inner loops
    for idx, l in enumerate(loops):
        ordn = str(idx)
        r = goertzel_roles(l)
        if r:
            chan = "vx" if gi == 0 else "vy"
            gi += 1
            inv = [f"complex({r['s1']} - {r['s2']}*{kr['cosw']}, {r['s2']}*{kr['sinw']}) == conj(E({kr.get('omega','omega')}, {r['n']} - 1)) * Dft({chan}({tid}), {r['n']}, {kr.get('omega','omega')})"]
            specs[ordn] = dict(inv=inv, label="goertzel_" + ("x" if chan == "vx" else "y"))
            continue
        var = l.target.id
        accs = [st for st in l.body if isinstance(st, ast.AugAssign) and isinstance(st.op, ast.Add) and isinstance(st.target, ast.Name)]
        stores = [st for st in l.body if isinstance(st, ast.Assign) and isinstance(st.targets[0], ast.Subscript) and isinstance(st.targets[0].value, ast.Name)]
        inner = [x for x in l.body if isinstance(x, ast.For)]
        inv = []
        if accs and not inner:
            for a in accs:
                inv.append(f"{a.target.id} == Sum(0, {var}, lambda {var}_: {_sub(a.value, var, var + '_')})")
            par = direct_parent(l)
            if par is not None and id(par) in outer_alpha_inv:
                inv.append(outer_alpha_inv[id(par)])
            specs[ordn] = dict(inv=inv, label=f"accumulate_{'_'.join(a.target.id for a in accs)}")
        elif inner and stores:
            # for k: acc = 0; for n: acc += E(n,k); a[k] = acc
            iacc = [st for st in inner[0].body if isinstance(st, ast.AugAssign)][0]
            ivar = inner[0].target.id
            hi = ast.unparse(inner[0].iter.args[0])
            arr = stores[0].targets[0].value.id
            body = _sub(iacc.value, ivar, ivar + "_")
            body = ast.unparse(ast.parse(body, mode="eval"))
            t = f"forall(0, {var}, lambda {var}_: {arr}[{var}_] == Sum(0, {hi}, lambda {ivar}_: {_sub(ast.parse(body, mode='eval').body, var, var + '_')}))"
            outer_alpha_inv[id(l)] = t
            specs[ordn] = dict(inv=[t], label=f"fill_{arr}")
        else:
            raise RuntimeError(f"{fname}: loop {idx} has no recognised shape")
    return specs


OUT = ["xx", "yy", "xyr", "xyi"]


def device_post(cross):
    if cross:
        vals = ["abs2(X(tid))", "abs2(Y(tid))", "re(Z(tid))", "im(Z(tid))"]
    else:
        vals = ["abs2(X(tid))", "abs2(X(tid))", "abs2(X(tid))", "0"]
    ens = {}
    for a, v, lab in zip(OUT, vals, ["slot_xx", "slot_yy", "slot_xyr", "slot_xyi"]):
        ens[lab] = f"implies(tid < K, {a}[tid] == {v})"
    ens["frame.only_own_slot_written"] = "forall(0, K, lambda k: implies(k != tid or tid >= K, xx[k] == old_xx[k] and yy[k] == old_yy[k] and xyr[k] == old_xyr[k] and xyi[k] == old_xyi[k]))"
    return ens


def make_device(fname, family, cross):
    xs = ["x1", "x2"] if cross else ["x"]
    ghosts = {"N": ("int", f"len({xs[0]})"), "K": ("int", "len(starts)"), "tid": "int"}
    req = list(KERNEL_REQ) + ["tid >= 0", "len(xx) == K", "len(yy) == K", "len(xyr) == K", "len(xyi) == K"]
    params = {}
    for x in xs:
        params[x] = ("arr", "real", ("N",))
    params.update({"starts": ("arr", "int", ("K",)), "L": "int", "w": ("arr", "real", ("L",)), "omega": "real"})
    if cross:
        req.append("len(x2) == N")
    if family == "poly":
        ghosts["P1"] = ("int", "Q.shape[1]")
        req += POLY_REQ
        params["Q"] = ("arr", "real", ("L", "P1"))
    for a in OUT:
        params[a] = ("arr", "real", ("K",))
    return Unit(
        id=f"core_cuda.{fname}",
        module=M,
        func=fname,
        props=["C01", "C07", "C08", "C14"],
        ghosts=ghosts,
        params=params,
        requires=req,
        returns="none",
        modifies=OUT,
        ensures=device_post(cross),
        opts={"ghost_defs": kernel_ghost_defs(family, cross, xs), "lazy_loops": lambda mod, fname=fname, family=family, cross=cross: cuda_kernel_loops(mod, fname, family, cross), "sat_level": 0},
    )


def make_host(fname, family, cross):
    xs = ["x1", "x2"] if cross else ["x"]
    ghosts = {"N": ("int", f"len({xs[0]})"), "K": ("int", "len(starts)")}
    req = list(KERNEL_REQ)
    params = {}
    for x in xs:
        params[x] = ("arr", "real", ("N",))
    params.update({"starts": ("arr", "int", ("K",)), "L": "int", "w": ("arr", "real", ("L",)), "omega": "real"})
    if cross:
        req.append("len(x2) == N")
    if family == "poly":
        ghosts["P1"] = ("int", "Q.shape[1]")
        req += POLY_REQ
        params["Q"] = ("arr", "real", ("L", "P1"))
    u = Unit(
        id=f"core_cuda.{fname}",
        module=M,
        func=fname,
        props=["C01", "C07", "C08", "C14"],
        ghosts=ghosts,
        params=params,
        requires=req,
        returns=("tuple", "real", "real", "real", "real", "real"),
        ensures=dict(POST_CROSS if cross else POST_AUTO),
        opts={"ghost_defs": kernel_ghost_defs(family, cross, xs), "sat_level": 0 if cross else 1, "lazy_lemmas": lambda mod, fname=fname, cross=cross: reducer_lemmas(mod, fname, cross)},
    )

    def call(a, fname=fname):
        import importlib

        m = importlib.import_module("speckit.core_cuda")
        return getattr(m, fname)(**a)

    u.runtime = dict(sample=kernel_sample(family, cross), call=call, scale=kernel_scale, n_quick=5, n_thorough=40, n_search=30, skip_requires=("forall(0, K, lambda j: 0 <= starts[j] and starts[j] + L <= N)",))
    return u


UNITS = []
for family in ("win_only", "detrend0", "poly"):
    for cross in (False, True):
        base = f"_stats_{family}_{'csd' if cross else 'auto'}_cuda"
        UNITS.append(make_device(base + "_kernel", family, cross))
        UNITS.append(make_host(base, family, cross))


def install(eng):
    from pyvc.heap import ModuleV, Builtin, ArrV, Ref
    from pyvc.values import Opaque, Unsupported
    from pyvc import values as V
    from pyvc.contract import eval_text

    mods = eng.builtins["__modules__"]
    nb = mods["numba"]
    cuda = ModuleV("numba.cuda")
    nb.attrs["cuda"] = cuda
    types = ModuleV("numba.types")
    types.attrs["float64"] = eng.builtins["numpy.float64"]
    nb.attrs["types"] = types
    eng.builtins["numba.cuda"] = cuda
    eng.builtins["numba.types"] = types

    def grid(eng_, st, ndim):
        return eng_.ghost_env["tid"]

    def to_device(eng_, st, a):
        ad = eng_.deref(st, a)
        return eng_.alloc(st, ArrV(ad.shape, ad.fn, ad.dtype))  # value-preserving copy (A-JIT)

    def device_array(eng_, st, shape, dtype=None):
        sh = eng_.deref(st, shape)
        sh = tuple(sh) if isinstance(sh, tuple) else (sh,)
        return eng_.alloc(st, eng_.fresh_array("dev", sh, "real"))

    local = ModuleV("numba.cuda.local")
    local.attrs["array"] = Builtin("numba.cuda.local.array", lambda eng_, st, n, dtype=None: eng_.alloc(st, eng_.fresh_array("local", (eng_.deref(st, n),), "real")), True)
    cuda.attrs.update(grid=Builtin("numba.cuda.grid", grid, True), to_device=Builtin("numba.cuda.to_device", to_device, True), device_array=Builtin("numba.cuda.device_array", device_array, True), local=local)
    eng.trusted.add("A-JIT (CUDA): a launch kernel[blocks, T](...) runs the device body once for every thread index 0..blocks*T-1; cuda.to_device / copy_to_host are value-preserving copies; cuda.grid(1) is that thread index")

    # copy_to_host on a device array: value-preserving copy
    from pyvc import npmodel

    orig_method = npmodel.array_method

    def array_method(eng_, st, bm, args, kwargs, line=0):
        if bm.name == "copy_to_host":
            a = eng_.deref(st, bm.obj)
            return ArrV(a.shape, a.fn, a.dtype)
        return orig_method(eng_, st, bm, args, kwargs, line)

    npmodel.array_method = array_method

    # kernel launch:  kernel[blocks, T](args...)
    def launch(eng_, st, fn, args, kwargs, line):
        kern = fn.attrs["kernel"]
        cfg = fn.attrs["launch"]
        key = f"{kern.module.relname}:{kern.name}"
        unit = eng_.contracts.get(key)
        if unit is None:
            raise Unsupported(f"launch of a kernel without contract: {key}")
        blocks, T = cfg
        real_st = eng_.cur_state
        fid = eng_.new_frame(real_st, parent=None, module=kern.module)
        eng_.bind_params(real_st, kern, list(args), dict(kwargs), fid)
        saved = (eng_.ghost_env, getattr(eng_, "ghost_defs", None))
        genv = {}
        eng_.ghost_env = genv
        eng_.ghost_defs = unit.opts.get("ghost_defs")
        try:
            for g, kind in unit.ghosts.items():
                if isinstance(kind, tuple):
                    genv[g] = eval_text(eng_, real_st, fid, kind[1])
            # the grid must cover every segment
            eng_.oblige(real_st, "call_pre", f"{unit.id}.launch_covers_all_segments@{line}", V.cmp(">=", V.mul(blocks, T), genv["K"]))
            tid = eng_.fresh("tid", "int")
            genv["tid"] = tid
            for label, text in unit.requires:
                if "tid" in text:
                    continue
                v = eval_text(eng_, real_st, fid, text)
                eng_.oblige(real_st, "call_pre", f"{unit.id}.{label}@{line}", eng_.truthy(real_st, v))
            # every thread 0..blocks*T-1 ran: outputs are havocked and hold each thread's post
            for m in unit.modifies:
                ref = real_st.frames[fid]["vars"].get(m)
                obj = real_st.heap[ref.loc]
                real_st.heap[ref.loc] = eng_.fresh_array(f"{m}_new", obj.shape, obj.dtype)
            del genv["tid"]
            for label, text in unit.ensures:
                if label.startswith("frame."):
                    continue
                v = eval_text(eng_, real_st, fid, f"forall(0, K, lambda tid: ({text}))")
                real_st.assume(eng_.truthy(real_st, v))
            eng_.trusted_calls.add(key)
        finally:
            eng_.ghost_env, eng_.ghost_defs = saved
        return None

    eng.call_hooks["kernel-launch"] = launch
