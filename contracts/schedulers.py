"""Contracts for speckit/schedulers.py and utils.round_half_up / find_Jdes_binary_search
(C02, C03, C04).

Precondition = the property's admissible configurations:
  integers N >= 8, 1 <= Lmin <= N, Jdes >= 1, Kdes >= 1; reals fs > 0, 0 <= olap < 1, 1 <= bmin < N/2.
Postconditions are the per-bin statements of C02 / C03 / C04, proved at one arbitrary bin.
Loop invariants carry code-derived closed forms (what each appended element is); the
posts derive the property clauses from them.
"""
from pyvc.unitdef import Unit

M = "speckit/schedulers.py"

ADMISSIBLE = [
    "N >= 8",
    "fs > 0",
    "0 <= olap",
    "olap < 1",
    "1 <= bmin",
    "2*bmin < N",
    "1 <= Lmin",
    "Lmin <= N",
    "Jdes >= 1",
    "Kdes >= 1",
]


def args_setup(overrides=None, keys=("N", "fs", "olap", "bmin", "Lmin", "Jdes", "Kdes")):
    def setup(eng, st, fid, genv):
        from pyvc.heap import DictV

        d = {}
        kinds = {"N": "int", "fs": "real", "olap": "real", "bmin": "real", "Lmin": "int", "Jdes": "int", "Kdes": "int"}
        for k in keys:
            v = eng.fresh("arg_" + k, kinds[k])
            d[k] = v
        eng.setvar(st, fid, "args", eng.alloc(st, DictV(d)))

    return setup


# ---- spec-level closed forms used in invariants (code-derived shapes) ----------------------
GD = {
    # number of averages for segment length l: the integer nearest to 1+(N-l)/((1-olap) l) (halves up),
    # capped at the N-l+1 distinct positions (C04)
    "NAVG": "lambda l: ite(rhu(((N - l) / (1 - olap)) / l + 1) <= N - l + 1, rhu(((N - l) / (1 - olap)) / l + 1), N - l + 1)",
    # realised shift between consecutive starts (the code never uses less than one sample)
    "SHIFT": "lambda l, k: ite(k == 1, 1, ite((N - l) / (k - 1) < 1, 1, (N - l) / (k - 1)))",
}

# C04: the loop body of ltf_plan as a function of the current frequency (ghost replay), in opaque stages so that
# each monotonicity step sees only the definition it needs
GD.update(
    {
        "FRES1": {"opaque": "lambda f: ite(f * logfact >= freslim, f * logfact, ite(sqrt(freslim * (f * logfact)) > fresmin, sqrt(freslim * (f * logfact)), fresmin))", "reveal": ["C04.replay", "C04.m1", "C04.r1"]},
        "FRES2": {"opaque": "lambda f: ite(f / FRES1(f) < bmin, f / bmin, FRES1(f))", "reveal": ["C04.replay", "C04.m2", "C04.r2"]},
        "LEN0": {"opaque": "lambda f: rhu(fs / FRES2(f))", "reveal": ["C04.replay", "C04.m3", "C04.r3"]},
        "LEN1": {"opaque": "lambda f: ite(LEN0(f) > N, N, ite(LEN0(f) < Lmin, Lmin, LEN0(f)))", "reveal": ["C04.replay", "C04.m4", "C04.r4"]},
        "LEN": {"opaque": "lambda f: ite(NAVG(LEN1(f)) == 1, N, LEN1(f))", "reveal": ["C04.replay", "C04.m6", "C04.r5"]},
    }
)

# C04 log-spaced regime: the property's own constants (not the code's variables)
GD.update(
    {
        "CLOG": "power(N / 2, 1 / Jdes) - 1",
        "FLIM": "fs / N * (1 + (1 - olap) * (Kdes - 1))",
        # the desired averaging is attainable (ideal resolution f*CLOG at least the Kdes-limit) and no clamp is active:
        # bin number at least bmin, Lmin <= ideal length <= N, more than one segment
        "REGIME": "lambda f: f * CLOG >= FLIM and f / (f * CLOG) >= bmin and rhu(fs / (f * CLOG)) <= N and rhu(fs / (f * CLOG)) >= Lmin and NAVG(rhu(fs / (f * CLOG))) != 1",
    }
)

# ---- the property's per-bin statements ------------------------------------------------------------
# (i is an arbitrary bin; D, L, K, navg, f, r, b, O are the fields of the returned plan)
BIN_C02 = {
    "C02.at_least_one_segment": "len(result['D'][i]) >= 1",
    "C02.navg_is_number_of_starts": "result['navg'][i] == len(result['D'][i])",
    "C02.K_is_number_of_starts": "result['K'][i] == len(result['D'][i])",
    "C02.first_start_is_zero": "result['D'][i][0] == 0",
    "C02.starts_in_bounds": "forall(0, len(result['D'][i]), lambda m: 0 <= result['D'][i][m] and result['D'][i][m] + result['L'][i] <= N)",
    "C02.starts_strictly_increasing": "forall(0, len(result['D'][i]) - 1, lambda m: result['D'][i][m] < result['D'][i][m+1])",
    "C02.last_segment_ends_at_N": "result['D'][i][len(result['D'][i]) - 1] + result['L'][i] == N",
    "C02.L_range": "1 <= result['L'][i] and Lmin <= result['L'][i] and result['L'][i] <= N",
    "C02.single_segment_uses_record": "implies(len(result['D'][i]) == 1, result['L'][i] == N)",
}
BIN_C03 = {
    "C03.dft_constraint": "result['r'][i] * result['L'][i] == fs",
    "C03.bin_number": "result['b'][i] * result['r'][i] == result['f'][i] and result['b'][i] * fs == result['f'][i] * result['L'][i]",
    "C03.below_nyquist": "result['f'][i] < fs / 2",
    "C03.first_frequency": "result['f'][0] == bmin * fs / N",
    "C03.stepping": "implies(i + 1 < result['nf'], result['f'][i+1] == result['f'][i] + result['r'][i])",
    "C03.strictly_increasing": "implies(i + 1 < result['nf'], result['f'][i+1] > result['f'][i])",
    # no bin below bmin by more than the rounding of L to an integer allows: b*(1 + 1/(2L)) >= bmin
    "C03.bmin_up_to_rounding_of_L": "result['b'][i] + result['f'][i] / (2*fs) >= bmin",
}
BIN_C04 = {
    "C04.segment_length_never_increases": "implies(i + 1 < result['nf'], result['L'][i] >= result['L'][i+1])",
    "C04.averages_never_decrease": "implies(i + 1 < result['nf'], result['navg'][i] <= result['navg'][i+1] and result['K'][i] <= result['K'][i+1])",
    # the integer nearest to 1+(N-L)/((1-olap)L), capped at the N-L+1 distinct positions
    "C04.navg_nearest_integer_capped": "result['navg'][i] == NAVG(result['L'][i])",
    # each start within half a sample of its ideal position m*(N-L)/(K-1)
    # log spacing: r/f = fs/(L f) equals the constant CLOG up to the rounding of L to an integer
    # (cut lemmas: in the regime every stage of the replay is the ideal log-spaced value)
    "lemma.C04.r1": "implies(REGIME(result['f'][i]), FRES1(result['f'][i]) == result['f'][i] * CLOG and result['f'][i] * CLOG > 0)",
    "lemma.C04.r2": "implies(REGIME(result['f'][i]), FRES2(result['f'][i]) == result['f'][i] * CLOG)",
    "lemma.C04.r3": "implies(REGIME(result['f'][i]), LEN0(result['f'][i]) == rhu(fs / (result['f'][i] * CLOG)))",
    "lemma.C04.r4": "implies(REGIME(result['f'][i]), LEN1(result['f'][i]) == rhu(fs / (result['f'][i] * CLOG)))",
    "lemma.C04.r5": "implies(REGIME(result['f'][i]), LEN(result['f'][i]) == rhu(fs / (result['f'][i] * CLOG)))",
    "C04.regime_log_spacing": "implies(REGIME(result['f'][i]), result['L'][i] == rhu(fs / (result['f'][i] * CLOG)) and result['L'][i] - fs / (result['f'][i] * CLOG) <= 1/2 and fs / (result['f'][i] * CLOG) - result['L'][i] < 1/2)",
    # ... and at least Kdes averages there (when L was not rounded up and Kdes positions exist)
    "lemma.C04.regime_ideal_length": "implies(REGIME(result['f'][i]), result['f'][i] * CLOG > 0 and fs / (result['f'][i] * CLOG) * (1 + (1 - olap) * (Kdes - 1)) <= N)",
    "lemma.C04.regime_ideal_count": "implies(REGIME(result['f'][i]) and result['L'][i] <= fs / (result['f'][i] * CLOG), (N - result['L'][i]) >= (Kdes - 1) * ((1 - olap) * result['L'][i]))",
    "lemma.C04.regime_count_before_rounding": "implies(REGIME(result['f'][i]) and result['L'][i] <= fs / (result['f'][i] * CLOG), ((N - result['L'][i]) / (1 - olap)) / result['L'][i] + 1 >= Kdes)",
    "C04.regime_at_least_Kdes": "implies(REGIME(result['f'][i]) and result['L'][i] <= fs / (result['f'][i] * CLOG) and N - result['L'][i] + 1 >= Kdes, result['K'][i] >= Kdes)",
    # the reported overlap is the realised mean overlap of consecutive starts
    "C04.reported_overlap_is_realised_mean": "result['O'][i] == ite(result['K'][i] > 1, Sum(0, result['K'][i] - 1, lambda m: (result['L'][i] - (result['D'][i][m+1] - result['D'][i][m])) / result['L'][i]) / (result['K'][i] - 1), 0)",
    "C04.starts_evenly_spread": "forall(0, len(result['D'][i]), lambda m: result['D'][i][m] - m * (N - result['L'][i]) / (result['K'][i] - 1) <= 1/2 and m * (N - result['L'][i]) / (result['K'][i] - 1) - result['D'][i][m] <= 1/2) if result['K'][i] > 1 else result['D'][i][0] == 0",
}
# proof hints (cut lemmas): each is proved first, then available to the clauses after it
D_LEMMAS = {
    "lemma.closed_form": "len(result['D'][i]) == NAVG(result['L'][i]) and forall(0, len(result['D'][i]), lambda m: result['D'][i][m] == floor(m * SHIFT(result['L'][i], len(result['D'][i])) + 1/2))",
    "lemma.navg_capped": "len(result['D'][i]) <= N - result['L'][i] + 1 and len(result['D'][i]) >= 1",
    "lemma.shift_at_least_one": "implies(len(result['D'][i]) >= 2, SHIFT(result['L'][i], len(result['D'][i])) * (len(result['D'][i]) - 1) == N - result['L'][i] and SHIFT(result['L'][i], len(result['D'][i])) >= 1)",
    "lemma.ideal_positions_in_range": "forall(0, len(result['D'][i]), lambda m: 0 <= m * SHIFT(result['L'][i], len(result['D'][i])) and m * SHIFT(result['L'][i], len(result['D'][i])) <= N - result['L'][i])",
}
PLAN_POST = {"C02.nonempty": "result['nf'] >= 1", "C02.nf_is_length": "result['nf'] == len(result['f']) and len(result['D']) == result['nf'] and len(result['L']) == result['nf'] and len(result['K']) == result['nf'] and len(result['navg']) == result['nf'] and len(result['r']) == result['nf'] and len(result['b']) == result['nf']"}


def bin_ghost(eng, st, fid, res, entry):
    """bind the arbitrary bin index i (0 <= i < nf) once per return path"""
    from pyvc import values as V

    i = eng.fresh("bin", "int")
    eng.ghost_env["i"] = i
    r = eng.deref(st, res)
    nf = r.d["nf"]
    st.assume(V.b_and(V.cmp("<=", 0, i), V.cmp("<", i, nf)))


LTF_LOOPS = {
    # while fi < fmax
    "0": dict(
        label="freq",
        types={"f_arr": "list[real]", "fres_arr": "list[real]", "b_arr": "list[real]", "L_arr": "list[int]", "K_arr": "list[int]"},
        variant="fmax - fi",
        decrease="fresmin",
        # cut lemmas for the bmin clause, over the values right after the rounding of L
        probes={"rounded": "dftlen = int(round_half_up(fs / fres))", "counted": "nseg = min(nseg, N - dftlen + 1)"},
        step_lemmas={
            # the two spellings of the ideal segment count used by the two loops agree
            "count_forms_agree": "(N - dftlen_at_counted) / (xov * dftlen_at_counted) == ((N - dftlen_at_counted) / (1 - olap)) / dftlen_at_counted",
            "count_before_single_rule": "nseg == NAVG(dftlen_at_counted)",
            "count_single": "implies(nseg == 1, NAVG(N) == 1)",
            "count_final": "nseg == NAVG(dftlen)",
            "bmin_before_rounding": "fres_at_rounded > 0 and fi >= bmin * fres_at_rounded",
            "rounding_loses_at_most_half": "dftlen_at_rounded + 1/2 > fs / fres_at_rounded",
            "ideal_length_covers_bmin": "fs / fres_at_rounded >= bmin * fs / fi",
            "clamps": "dftlen >= dftlen_at_rounded or dftlen == N",
            "record_long_enough": "bmin * fs / fi <= N",
            "length_covers_bmin": "dftlen + 1/2 >= bmin * fs / fi",
            "bmin_slack": "fi * dftlen / fs + fi / (2*fs) >= bmin",
            # C04: the appended length is the ghost replay of the body at the appended frequency ...
            "C04.replay": "L_arr[len(L_arr)-1] == LEN(f_arr[len(f_arr)-1])",
            # ... and the replay is antitone in the frequency (A = previous, B = this frequency)
            "C04.m0": "implies(len(f_arr) >= 2, 0 < f_arr[len(f_arr)-2] and f_arr[len(f_arr)-2] <= f_arr[len(f_arr)-1] and logfact > 0 and freslim >= fresmin and fresmin > 0)",
            "C04.m1": "implies(len(f_arr) >= 2, FRES1(f_arr[len(f_arr)-2]) <= FRES1(f_arr[len(f_arr)-1]) and FRES1(f_arr[len(f_arr)-2]) > 0)",
            "C04.m2": "implies(len(f_arr) >= 2, FRES2(f_arr[len(f_arr)-2]) <= FRES2(f_arr[len(f_arr)-1]) and FRES2(f_arr[len(f_arr)-2]) > 0)",
            "C04.m3": "implies(len(f_arr) >= 2, LEN0(f_arr[len(f_arr)-2]) >= LEN0(f_arr[len(f_arr)-1]))",
            "C04.m4": "implies(len(f_arr) >= 2, LEN1(f_arr[len(f_arr)-2]) >= LEN1(f_arr[len(f_arr)-1]) and 1 <= LEN1(f_arr[len(f_arr)-1]) and LEN1(f_arr[len(f_arr)-2]) <= N)",
            "C04.m5": "implies(len(f_arr) >= 2, NAVG(LEN1(f_arr[len(f_arr)-2])) <= NAVG(LEN1(f_arr[len(f_arr)-1])) and NAVG(LEN1(f_arr[len(f_arr)-2])) >= 1)",
            "C04.m6": "implies(len(f_arr) >= 2, LEN(f_arr[len(f_arr)-2]) >= LEN(f_arr[len(f_arr)-1]) and 1 <= LEN(f_arr[len(f_arr)-1]) and LEN(f_arr[len(f_arr)-2]) <= N)",
            "C04.m7": "implies(len(f_arr) >= 2, NAVG(LEN(f_arr[len(f_arr)-2])) <= NAVG(LEN(f_arr[len(f_arr)-1])))",
        },
        # proof by citation: each monotonicity step uses only the facts it names (plus the revealed definition)
        lemma_from={
            "C04.m1": ["pre", "C04.m0"],
            "C04.m2": ["pre", "C04.m0", "C04.m1"],
            "C04.m3": ["pre", "C04.m0", "C04.m2"],
            "C04.m4": ["pre", "C04.m3"],
            "C04.m5": ["pre", "C04.m4"],
            "C04.m6": ["pre", "C04.m4", "C04.m5"],
            "C04.m7": ["pre", "C04.m6"],
        },
        inv={
            "lens": "len(fres_arr) == len(f_arr) and len(b_arr) == len(f_arr) and len(L_arr) == len(f_arr) and len(K_arr) == len(f_arr)",
            "fi_chain": "fi == ite(len(f_arr) == 0, fmin, f_arr[len(f_arr)-1] + fres_arr[len(f_arr)-1])",
            "fi_pos": "fi >= fmin",
            "first": "implies(len(f_arr) >= 1, f_arr[0] == fmin)",
            "bins": "forall(0, len(f_arr), lambda j: 1 <= L_arr[j] and Lmin <= L_arr[j] and L_arr[j] <= N and fres_arr[j] * L_arr[j] == fs"
            " and b_arr[j] * fres_arr[j] == f_arr[j] and f_arr[j] < fmax and f_arr[j] >= fmin"
            " and K_arr[j] == NAVG(L_arr[j]) and implies(K_arr[j] == 1, L_arr[j] == N)"
            " and f_arr[j] * L_arr[j] / fs + f_arr[j] / (2*fs) >= bmin)",
            "steps": "forall(0, len(f_arr) - 1, lambda j: f_arr[j+1] == f_arr[j] + fres_arr[j])",
            "C04.replayed": "forall(0, len(f_arr), lambda j: L_arr[j] == LEN(f_arr[j]))",
            "C04.monotone": "forall(0, len(f_arr) - 1, lambda j: L_arr[j] >= L_arr[j+1] and K_arr[j] <= K_arr[j+1])",
        },
    ),
    # for j in range(nf): averages and starts
    "1": dict(
        label="segments",
        types={"navg_arr": "list[int]", "D_arr": "list[list[int]]", "L_arr": "list[int]"},
        inv={
            "lens": "len(navg_arr) == j and len(D_arr) == j and len(L_arr) == len(pre_L_arr)",
            "L_kept": "forall(0, len(L_arr), lambda q: L_arr[q] == pre_L_arr[q])",
            "done": "forall(0, j, lambda q: navg_arr[q] == NAVG(L_arr[q]) and len(D_arr[q]) == navg_arr[q]"
            " and forall(0, len(D_arr[q]), lambda m: D_arr[q][m] == floor(m * SHIFT(L_arr[q], navg_arr[q]) + 1/2)))",
        },
    ),
    "2": dict(
        label="starts",
        types={"D_arr": "list[list[int]]"},
        index="m_",
        inv={
            "lens": "len(D_arr[j]) == _i",
            "shift": "shift == SHIFT(L_j, averages) and shift >= 1",
            "start": "start == _i * SHIFT(L_j, averages)",
            "cur": "forall(0, _i, lambda m: D_arr[j][m] == floor(m * SHIFT(L_j, averages) + 1/2))",
        },
    ),
    # for j in range(nf): overlaps
    "3": dict(
        label="overlaps",
        types={"O_arr": "list[real]"},
        inv={
            "lens": "len(O_arr) == j",
            "C04.realised": "forall(0, j, lambda q: O_arr[q] == ite(len(D_arr[q]) > 1, Sum(0, len(D_arr[q]) - 1, lambda m: (L_arr[q] - (D_arr[q][m+1] - D_arr[q][m])) / L_arr[q]) / (len(D_arr[q]) - 1), 0))",
        },
    ),
}

LTF_REQ = list(ADMISSIBLE)


def plan_result(eng, st, name, env):
    """symbolic plan dict (result of a scheduler called by contract)"""
    from pyvc.heap import DictV
    from pyvc.loops import fresh_list
    from pyvc import values as V

    nf = eng.fresh("nf", "int")
    st.assume(V.cmp(">=", nf, 0))
    d = {"nf": nf}
    for k, ty in (("f", "real"), ("r", "real"), ("b", "real"), ("m", "real"), ("L", "int"), ("K", "int"), ("navg", "int"), ("O", "real")):
        d[k] = eng.alloc(st, eng.fresh_array("plan_" + k, (nf,), ty))
    dl = fresh_list(eng, "plan_D", "list[list[int]]")
    st.assume(V.cmp("==", dl.n, nf))
    d["D"] = eng.alloc(st, dl)
    return eng.alloc(st, DictV(d))

UNITS = []

ARG_GHOSTS = {"N": ("int", "args['N']"), "fs": ("real", "args['fs']"), "olap": ("real", "args['olap']"), "bmin": ("real", "args['bmin']"), "Lmin": ("int", "args['Lmin']"), "Jdes": ("int", "args['Jdes']"), "Kdes": ("int", "args['Kdes']")}
CALL_ENS = dict(PLAN_POST)
BIN_C04_POSTS = {k: v for k, v in BIN_C04.items() if not k.startswith("lemma.")}
for _l, _t in {**BIN_C02, **BIN_C03, **BIN_C04_POSTS}.items():
    # (a clause that does not mention the bin index is stated once, for a non-empty plan)
    CALL_ENS[_l] = f"forall(0, result['nf'], lambda i: {_t})" if ("[i]" in _t or "i + 1" in _t or "[i+1]" in _t) else f"implies(result['nf'] >= 1, {_t})"
CALL_ENS_23 = {k: v for k, v in CALL_ENS.items() if not k.startswith("C04.")}

UNITS.append(
    Unit(
        id="schedulers.ltf_plan",
        module=M,
        func="ltf_plan",
        props=["C02", "C03", "C04"],
        setup=args_setup(),
        ghosts=dict(ARG_GHOSTS),
        returns=plan_result,
        requires=LTF_REQ,
        loops=LTF_LOOPS,
        ensures={**PLAN_POST, **D_LEMMAS, **BIN_C02, **BIN_C03, **BIN_C04},
        post_hook=bin_ghost,
        opts={
            "ghost_defs": GD,
            "callee": True,
            "call_ensures": CALL_ENS,
            "lemma_from": {
                "lemma.ideal_positions_in_range": ["pre", "inv", "lemma.closed_form", "lemma.navg_capped", "lemma.shift_at_least_one"],
                "C02.starts_in_bounds": ["pre", "lemma.closed_form", "lemma.ideal_positions_in_range", "lemma.navg_capped", "lemma.shift_at_least_one"],
                "C02.starts_strictly_increasing": ["pre", "lemma.closed_form", "lemma.ideal_positions_in_range", "lemma.navg_capped", "lemma.shift_at_least_one"],
                "C02.last_segment_ends_at_N": ["pre", "lemma.closed_form", "lemma.ideal_positions_in_range", "lemma.navg_capped", "lemma.shift_at_least_one"],
                "lemma.C04.r1": ["pre"],
                "lemma.C04.r2": ["pre", "lemma.C04.r1"],
                "lemma.C04.r3": ["pre", "lemma.C04.r2"],
                "lemma.C04.r4": ["pre", "lemma.C04.r3"],
                "lemma.C04.r5": ["pre", "lemma.C04.r4"],
                "lemma.C04.regime_ideal_length": ["pre", "lemma.C04.r1"],
                "lemma.C04.regime_ideal_count": ["pre", "lemma.C04.regime_ideal_length", "lemma.navg_capped", "C02.L_range"],
                "lemma.C04.regime_count_before_rounding": ["pre", "lemma.C04.regime_ideal_count", "C02.L_range"],
            },
        },
        raises={},
    )
)

# lpsd_plan == ltf_plan with bmin=1.0, Lmin=1 (C03): the wrapper is proved against ltf_plan's
# contract; its posts are the same per-bin statements with those two values
UNITS.append(
    Unit(
        id="schedulers.lpsd_plan",
        module=M,
        func="lpsd_plan",
        props=["C02", "C03", "C04"],
        # callers (plan()) pass bmin / Lmin too: whatever they are, the plan is the LTF plan for bmin = 1, Lmin = 1
        setup=args_setup(),
        ghosts={**{k: v for k, v in ARG_GHOSTS.items() if k not in ("bmin", "Lmin")}, "bmin": ("real", "1.0"), "Lmin": ("int", "1")},
        requires=[c for c in ADMISSIBLE if "bmin" not in c and "Lmin" not in c],
        ensures={**PLAN_POST, **BIN_C02, **BIN_C03, **BIN_C04_POSTS},
        post_hook=bin_ghost,
        returns=plan_result,
        opts={"ghost_defs": GD, "callee": True, "call_ensures": CALL_ENS},
    )
)


# ---- new_ltf_plan / vectorized_ltf_plan: vectorised finalisation (np.round = half-to-even) ----------------
GD.update(
    {
        # opaque: bins carry K == NAVGE(L) by congruence; the definition is revealed only where it is needed
        "NAVGE": {
            "opaque": "lambda l: ite(rhe((N - l) / ((1 - olap) * l) + 1) <= N - l + 1, rhe((N - l) / ((1 - olap) * l) + 1), N - l + 1)",
            "reveal": [".count", "lemma.closed_form", "lemma.navg_capped", "lemma.shift_at_least_one"],
        },
        "SHIFTV": "lambda l, k: ite(k > 1, (N - l) / (k - 1), 0)",
    }
)
V_LEMMAS = {
    "lemma.closed_form": "len(result['D'][i]) == result['K'][i] and result['K'][i] == NAVGE(result['L'][i]) and forall(0, len(result['D'][i]), lambda m: result['D'][i][m] == rhe(m * SHIFTV(result['L'][i], result['K'][i])))",
    "lemma.navg_capped": "result['K'][i] <= N - result['L'][i] + 1 and result['K'][i] >= 1",
    "lemma.shift_at_least_one": "implies(result['K'][i] >= 2, SHIFTV(result['L'][i], result['K'][i]) * (result['K'][i] - 1) == N - result['L'][i] and SHIFTV(result['L'][i], result['K'][i]) >= 1)",
    "lemma.ideal_positions_in_range": "forall(0, result['K'][i], lambda m: 0 <= m * SHIFTV(result['L'][i], result['K'][i]) and m * SHIFTV(result['L'][i], result['K'][i]) <= N - result['L'][i])",
    "lemma.within_half_a_sample": "forall(0, result['K'][i], lambda m: result['D'][i][m] - m * SHIFTV(result['L'][i], result['K'][i]) <= 1/2 and m * SHIFTV(result['L'][i], result['K'][i]) - result['D'][i][m] <= 1/2)",
    "lemma.unit_shift_exact": "implies(SHIFTV(result['L'][i], result['K'][i]) == 1, forall(0, result['K'][i], lambda m: result['D'][i][m] == m))",
}

# C04 clauses that hold for the vectorised finalisation (np.round: nearest, ties to even)
BIN_C04V = {
    "C04.navg_nearest_integer_capped": "result['navg'][i] == NAVGE(result['L'][i]) and result['K'][i] == result['navg'][i]",
    "C04.starts_evenly_spread": "forall(0, len(result['D'][i]), lambda m: result['D'][i][m] - m * (N - result['L'][i]) / (result['K'][i] - 1) <= 1/2 and m * (N - result['L'][i]) / (result['K'][i] - 1) - result['D'][i][m] <= 1/2) if result['K'][i] > 1 else result['D'][i][0] == 0",
}

NEW_LOOPS = {
    "0": dict(
        label="freq",
        types={"f": "list[real]", "r": "list[real]", "b": "list[real]", "L": "list[int]", "K": "list[int]", "alpha": "real", "stage2": "bool", "stage3": "bool", "dftlen_crossover": "int", "k_stage2": "int", "j": "int", "fi": "real"},
        variant="fmax - fi",
        decrease="fresmin",
        # block contract: whatever the three stages computed, after the clamps Lmin <= dftlen <= N;
        # the rest of the body is verified for an arbitrary such length
        cuts={
            "clamped": dict(at="if dftlen < Lmin:\n    dftlen = Lmin", havoc=["dftlen"], **{"assert": {"length_in_range": "1 <= dftlen and Lmin <= dftlen and dftlen <= N"}}),
            "counted": dict(
                at="if nseg == 1:\n    dftlen = N",
                occurrence=0,
                havoc=["dftlen", "nseg"],
                **{"assert": {"length_in_range": "1 <= dftlen and Lmin <= dftlen and dftlen <= N", "count": "nseg == NAVGE(dftlen)", "single_uses_record": "dftlen == N if nseg == 1 else True"}},
            ),
            "bmin_enforced": dict(
                at="if nseg == 1:\n    dftlen = N",
                occurrence=1,
                havoc=["dftlen", "nseg"],
                **{"assert": {"length_in_range": "1 <= dftlen and Lmin <= dftlen and dftlen <= N", "count": "nseg == NAVGE(dftlen)", "single_uses_record": "dftlen == N if nseg == 1 else True", "bin_at_least_bmin": "dftlen * fi >= bmin * fs"}},
            ),
        },
        inv={
            "lens": "len(r) == len(f) and len(b) == len(f) and len(L) == len(f) and len(K) == len(f) and j == len(f)",
            "fi_chain": "fi == ite(len(f) == 0, fmin, f[len(f)-1] + r[len(f)-1])",
            "fi_pos": "fi >= fmin",
            "counters": "k_stage2 >= 0",
            "first": "implies(len(f) >= 1, f[0] == fmin)",
            "bins": "forall(0, len(f), lambda q: 1 <= L[q] and Lmin <= L[q] and L[q] <= N and r[q] * L[q] == fs"
            " and b[q] * r[q] == f[q] and f[q] < fmax and f[q] >= fmin"
            " and K[q] == NAVGE(L[q]) and implies(K[q] == 1, L[q] == N)"
            " and f[q] * L[q] / fs + f[q] / (2*fs) >= bmin)",
            "steps": "forall(0, len(f) - 1, lambda q: f[q+1] == f[q] + r[q])",
        },
    ),
}

UNITS.append(
    Unit(
        id="schedulers.new_ltf_plan",
        module=M,
        func="new_ltf_plan",
        props=["C02", "C03", "C04"],
        setup=args_setup(),
        ghosts=dict(ARG_GHOSTS),
        requires=LTF_REQ,
        loops=NEW_LOOPS,
        ensures={**PLAN_POST, **V_LEMMAS, **BIN_C02, **BIN_C03, **BIN_C04V},
        post_hook=bin_ghost,
        returns=plan_result,
        opts={"ghost_defs": GD, "callee": True, "call_ensures": CALL_ENS_23},
        raises={},
    )
)


# vectorized_ltf_plan: the parameter maps are abstracted by a block contract (what every grid point
# satisfies), the walker loop carries the per-bin facts, the finalisation is shared with new_ltf_plan
MAP_FACTS = {
    "lengths": "len(r_map) == len(L_map) and len(K_map) == len(L_map)",
    "length_in_range": "forall(0, len(L_map), lambda g: 1 <= L_map[g] and Lmin <= L_map[g] and L_map[g] <= N)",
    "dft_constraint": "forall(0, len(L_map), lambda g: r_map[g] * L_map[g] == fs)",
    "count": "forall(0, len(L_map), lambda g: K_map[g] == NAVGE(L_map[g]))",
    "single_uses_record": "forall(0, len(L_map), lambda g: L_map[g] == N if K_map[g] == 1 else True)",
}
VEC_LOOPS = {
    "0": dict(
        label="walk",
        types={"f_out": "list[real]", "r_out": "list[real]", "L_out": "list[int]", "K_out": "list[int]", "current_f": "real"},
        variant="fmax - current_f",
        decrease="rmin",
        inv={
            "lens": "len(r_out) == len(f_out) and len(L_out) == len(f_out) and len(K_out) == len(f_out)",
            "chain": "current_f == ite(len(f_out) == 0, fmin, f_out[len(f_out)-1] + r_out[len(f_out)-1])",
            "pos": "current_f >= fmin",
            "first": "implies(len(f_out) >= 1, f_out[0] == fmin)",
            "bins": "forall(0, len(f_out), lambda q: 1 <= L_out[q] and Lmin <= L_out[q] and L_out[q] <= N and r_out[q] * L_out[q] == fs"
            " and f_out[q] < fmax and f_out[q] >= fmin and K_out[q] == NAVGE(L_out[q]) and implies(K_out[q] == 1, L_out[q] == N))",
            "steps": "forall(0, len(f_out) - 1, lambda q: f_out[q+1] == f_out[q] + r_out[q])",
        },
    ),
}
BIN_C03V = {k: v for k, v in BIN_C03.items() if k != "C03.bmin_up_to_rounding_of_L"}
CALL_ENS_V = {k: v for k, v in CALL_ENS.items() if k != "C03.bmin_up_to_rounding_of_L" and not k.startswith("C04.")}

UNITS.append(
    Unit(
        id="schedulers.vectorized_ltf_plan",
        module=M,
        func="vectorized_ltf_plan",
        props=["C02", "C03", "C04"],
        setup=args_setup(),
        ghosts=dict(ARG_GHOSTS),
        requires=LTF_REQ,
        loops=VEC_LOOPS,
        ensures={**PLAN_POST, **V_LEMMAS, **BIN_C02, **BIN_C03V, **BIN_C04V},
        post_hook=bin_ghost,
        returns=plan_result,
        opts={
            "ghost_defs": GD,
            "callee": True,
            "call_ensures": CALL_ENS_V,
            "cuts": {
                "lengths": dict(
                    at="L_grid[K_grid == 1] = N",
                    havoc_int_valued=["L_grid"],
                    **{"assert": {"in_range": "forall(0, len(L_grid), lambda g: 1 <= L_grid[g] and Lmin <= L_grid[g] and L_grid[g] <= N)",
                    "single_uses_record": "forall(0, len(L_grid), lambda g: L_grid[g] == N if rhe((N - L_grid[g]) / (xov * L_grid[g]) + 1) == 1 else True)"}},
                ),
                "maps": dict(at=["K_map = np.minimum(K_map, N - L_map + 1)", "L_map = L_grid.astype(np.int64)"], havoc=["r_map", "K_map", "L_map"], **{"assert": MAP_FACTS}),
            },
        },
        raises={},
    )
)

for _outer in ("ltf_plan",):
    UNITS.append(
        Unit(
            id=f"schedulers.{_outer}.round_half_up",
            module=M,
            func=f"{_outer}.round_half_up",
            props=["C02", "C03", "C04"],
            params={"val": "real"},
            returns="int",
            ensures={"nearest_integer_halves_up": "result == floor(val + 1/2)"},
        )
    )

UNITS.append(
    Unit(
        id="utils.round_half_up",
        module="speckit/utils.py",
        func="round_half_up",
        props=["C02", "C04"],
        params={"val": "real"},
        returns="int",
        ensures={"nearest_integer_halves_up": "result == floor(val + 1/2)"},
    )
)


# ------------------------------------------------------------------------- run-time reading


def sched_sample(rng, i):
    import numpy as np

    N = int(rng.integers(8, 3000))
    olap = float(rng.choice([0.0, 0.3, 0.5, 0.75, 0.9, 0.97, rng.uniform(0, 0.999)]))
    bmin = float(rng.uniform(1.0, min(N / 2 - 0.01, 12.0)))
    if i % 3 == 0:
        bmin = 1.0
    Lmin = int(rng.integers(1, N + 1)) if i % 4 == 0 else int(rng.integers(1, max(2, N // 8)))
    return {"args": dict(N=N, fs=float(rng.uniform(0.1, 100.0)), olap=olap, bmin=bmin, Lmin=Lmin, Jdes=int(rng.integers(1, 60)), Kdes=int(rng.integers(1, 120)))}


def sched_call(fname):
    def call(a):
        import speckit.schedulers as S

        return getattr(S, fname)(**a["args"])

    return call


def sched_env(args, result, ns):
    return dict(args["args"])


def lpsd_env(args, result, ns):
    d = dict(args["args"])
    d.update(bmin=1.0, Lmin=1)
    return d


def sched_foreach(args, result, ns):
    nf = int(result["nf"])
    idx = list(range(nf)) if nf <= 60 else sorted(set(list(range(20)) + list(range(nf - 20, nf)) + list(range(0, nf, max(1, nf // 20)))))
    return [{"i": i} for i in idx]


def sched_from_model(model, rng):
    """model-guided search: keep N and olap of the counter-model, force the modelled L through Lmin"""
    from fractions import Fraction

    def num(k, d):
        for kk, v in model.items():
            if kk.startswith(k + "!"):
                try:
                    return float(Fraction(v.replace(" ", "")))
                except Exception:
                    return d
        return d

    out = []
    N = int(max(8, min(5000, num("N", 64))))
    olap = num("olap", 0.9)
    if not (0 <= olap < 1):
        olap = 0.95
    for Lmin in (1, max(1, N // 2), max(1, N - 1), N):
        for Jdes, Kdes, bmin in ((1, 10, 1.0), (5, 3, 1.0), (20, 100, 1.5), (2, 1, 2.0)):
            if 2 * bmin < N:
                out.append({"args": dict(N=N, fs=float(num("fs", 1.0) or 1.0), olap=float(olap), bmin=float(bmin), Lmin=int(Lmin), Jdes=int(Jdes), Kdes=int(Kdes))})
    return out


for _u in UNITS:
    if _u.id.startswith("schedulers.") and _u.id.endswith("_plan"):
        _u.runtime = dict(sample=sched_sample, call=sched_call(_u.func), env=(lpsd_env if _u.func == "lpsd_plan" else sched_env), foreach=sched_foreach, from_model=sched_from_model, n_quick=40, n_thorough=400, n_search=300, skip_requires=(), scale=lambda a, r: 1e-3)
